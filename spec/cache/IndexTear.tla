----------------------------- MODULE IndexTear -----------------------------
(***************************************************************************)
(* C12 (and the damaged-entry clause of C05): an index entry is rewritten  *)
(* in place.  If the write is cut after k bytes and the writer is gone,    *)
(* the entry file holds the first k bytes of the new entry in front of the *)
(* remainder of the old one.  The entry has fixed-width fields             *)
(*    "v1 " id(64) " " out(64) " " size(20, right-aligned decimal) " "     *)
(*    time(20) "\n"                                  -- 175 bytes,         *)
(* so a cut falls before, inside or behind each field.  This module states *)
(* what get / GetBytes / GetFile make of every such entry, and the laws of *)
(* the statement on it; MC_IndexTear enumerates (old, new, k) and emits    *)
(* one prediction per triple for the driver's mode `tear`.                 *)
(*                                                                         *)
(* Abstraction: output ids are names; an id field the cut runs through is  *)
(* "torn" - the id of no stored output - unless old and new id are the     *)
(* same (two SHA-256 values that differ, differ in their first and in      *)
(* their last hex digit for the contents used: checked by the check).      *)
(* The size field is modelled character by character.                      *)
(***************************************************************************)
EXTENDS Integers, Sequences

CONSTANTS Contents,   \* names of the stored outputs
          SizeOf,     \* name -> length in bytes
          Bug         \* "none" | "EmptyShortcut" (GetBytes trusts a size of 0 without reading: the seeded C12-16)

EntrySize == 175
IdEnd   == 67      \* bytes 0..66: "v1 " and the action id (same in old and new)
OutFrom == 68
OutEnd  == 132     \* bytes 68..131: output id
SizeFrom == 133
SizeEnd  == 153    \* bytes 133..152: size
W == 20
SP == 32

RECURSIVE Digits(_)
Digits(n) == IF n < 10 THEN <<48 + n>> ELSE Digits(n \div 10) \o <<48 + (n % 10)>>
SizeField(n) == LET d == Digits(n) IN [i \in 1..W |-> IF i <= W - Len(d) THEN SP ELSE d[i - (W - Len(d))]]

\* strconv.ParseInt after the leading blanks: -1 stands for "parse error"
RECURSIVE Val(_, _, _)
Val(f, i, acc) == IF i > Len(f) THEN acc
                  ELSE IF f[i] < 48 \/ f[i] > 57 THEN -1 ELSE Val(f, i + 1, acc * 10 + (f[i] - 48))
FirstNonBlank(f) == IF \A i \in 1..Len(f) : f[i] = SP THEN Len(f) + 1 ELSE CHOOSE i \in 1..Len(f) : f[i] # SP /\ \A j \in 1..(i-1) : f[j] = SP
ParseSize(f) == LET i == FirstNonBlank(f) IN IF i > Len(f) THEN -1 ELSE Val(f, i, 0)

\* the entry file after `k` bytes of the entry for `new` were written over the entry for `old`
TornOut(old, new, k) == IF k >= OutEnd THEN new ELSE IF k <= OutFrom THEN old ELSE IF old = new THEN new ELSE "torn"
TornSizeField(old, new, k) ==
  LET j == IF k <= SizeFrom THEN 0 ELSE IF k >= SizeEnd THEN W ELSE k - SizeFrom
      fn == SizeField(SizeOf[new])  fo == SizeField(SizeOf[old]) IN
  [i \in 1..W |-> IF i <= j THEN fn[i] ELSE fo[i]]
Entry(old, new, k) == [out |-> TornOut(old, new, k), size |-> ParseSize(TornSizeField(old, new, k))]

\* get: the separators and the time field stay what they are (both entries have them in the same places, and a mix
\* of two 19-digit times is a number); an unparsable size is not-found
Readable(e) == e.size >= 0
\* GetBytes: reads the output file named by the entry and compares its SHA-256 with the entry's output id
GetBytes(e) ==
  IF ~Readable(e) THEN [res |-> "miss"]
  ELSE IF Bug = "EmptyShortcut" /\ e.size = 0 THEN [res |-> "bytes", content |-> "EMPTY", out |-> e.out, size |-> e.size]
  ELSE IF e.out \notin Contents THEN [res |-> "miss"]
  ELSE [res |-> "bytes", content |-> e.out, out |-> e.out, size |-> e.size]
\* GetFile: the named file has to exist with the entry's size
GetFile(e) ==
  IF ~Readable(e) \/ e.out \notin Contents \/ SizeOf[e.out] # e.size THEN [res |-> "miss"]
  ELSE [res |-> "file", content |-> e.out, out |-> e.out, size |-> e.size]

\* ---- the statement ----
\* "GetBytes still returns not-found or complete bytes whose SHA-256 equals the reported OutputID"
HashOf(c) == IF c = "EMPTY" THEN (IF \E x \in Contents : SizeOf[x] = 0 THEN CHOOSE x \in Contents : SizeOf[x] = 0 ELSE "hash-of-empty") ELSE c
LawBytes(e) == LET r == GetBytes(e) IN r.res = "bytes" => HashOf(r.content) = r.out
\* "a file named by GetFile always has the reported size and holds exactly the bytes with that OutputID"
LawFile(e) == LET r == GetFile(e) IN r.res = "file" => (SizeOf[r.content] = r.size /\ r.content = r.out)
\* not demanded, but true of the design and worth knowing: GetBytes may report a stale size with complete bytes
StaleSize(e) == LET r == GetBytes(e) IN r.res = "bytes" /\ r.content \in Contents /\ SizeOf[r.content] # r.size
=============================================================================
