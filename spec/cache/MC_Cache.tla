------------------------------- MODULE MC_Cache ------------------------------
(* Bounded instances of Cache.tla: C11 (concurrent), C12 (crash / fault), C05 (sequential) *)
EXTENDS Cache, Json

CONSTANTS Family, Emit

MCActors == {"w1", "w2", "r1"}
MCIds == {"i1", "i2"}
MCContents == {"c0", "c1", "c2", "c3"}
MCSize == ("c0" :> 0) @@ ("c1" :> 1) @@ ("c2" :> 3) @@ ("c3" :> 3)

Put(id, c, rd) == [op |-> "put", id |-> id, c |-> c, rd |-> rd]
GB(id) == [op |-> "getbytes", id |-> id, c |-> "-", rd |-> "-"]
GF(id) == [op |-> "getfile", id |-> id, c |-> "-", rd |-> "-"]
P(x, y, z) == ("w1" :> x) @@ ("w2" :> y) @@ ("r1" :> z)

EmptyData == [c \in MCContents |-> NoFile]
EmptyIdx == [i \in MCIds |-> NoIdx]
Full(c) == [ex |-> TRUE, b |-> Blocks(c)]
Ent(id, c) == [ex |-> TRUE, e |-> OkEnt(id, c), trail |-> FALSE]
SEmpty == [data |-> EmptyData, idx |-> EmptyIdx, started |-> {}, damaged |-> FALSE, name |-> "empty"]
\* i1 -> c2 stored earlier; the output file was removed by Trim since (lookups refresh only the index file)
STrimmed == [data |-> EmptyData, idx |-> [EmptyIdx EXCEPT !["i1"] = Ent("i1", "c2")], started |-> {<<"i1", "c2">>}, damaged |-> FALSE, name |-> "trimmed"]
\* i2 -> c2 stored earlier and intact (another id sharing the output a Put is about to touch)
SShared == [data |-> [EmptyData EXCEPT !["c2"] = Full("c2")], idx |-> [EmptyIdx EXCEPT !["i2"] = Ent("i2", "c2")], started |-> {<<"i2", "c2">>}, damaged |-> FALSE, name |-> "shared"]
\* i1 -> c3 stored earlier: a Put of i1 with c2 overwrites the entry with different content of equal length
SOther == [data |-> [EmptyData EXCEPT !["c3"] = Full("c3")], idx |-> [EmptyIdx EXCEPT !["i1"] = Ent("i1", "c3")], started |-> {<<"i1", "c3">>}, damaged |-> FALSE, name |-> "other"]
\* i1 -> c3 and i2 -> c3 stored earlier: a Put of i1 with c2 re-records i1 while i2 keeps sharing the old output
SBoth == [data |-> [EmptyData EXCEPT !["c3"] = Full("c3")], idx |-> [EmptyIdx EXCEPT !["i1"] = Ent("i1", "c3"), !["i2"] = Ent("i2", "c3")], started |-> {<<"i1", "c3">>, <<"i2", "c3">>}, damaged |-> FALSE, name |-> "both"]

\* pre-damaged outputs (only the checksum-verified lookups are asserted): same size wrong bytes / shorter / longer
SDamSame  == [data |-> [EmptyData EXCEPT !["c2"] = [ex |-> TRUE, b |-> Junk(3)]], idx |-> [EmptyIdx EXCEPT !["i1"] = Ent("i1", "c2")], started |-> {<<"i1", "c2">>}, damaged |-> TRUE, name |-> "damsame"]
SDamShort == [data |-> [EmptyData EXCEPT !["c2"] = [ex |-> TRUE, b |-> Junk(2)]], idx |-> [EmptyIdx EXCEPT !["i1"] = Ent("i1", "c2")], started |-> {<<"i1", "c2">>}, damaged |-> TRUE, name |-> "damshort"]
SDamLong  == [data |-> [EmptyData EXCEPT !["c2"] = [ex |-> TRUE, b |-> Junk(4)]], idx |-> [EmptyIdx EXCEPT !["i1"] = Ent("i1", "c2")], started |-> {<<"i1", "c2">>}, damaged |-> TRUE, name |-> "damlong"]

\* ---- C11: concurrent users, no crash, no fault ----
ProgsC11 == {
  P(<<Put("i1", "c2", "same")>>, <<Put("i1", "c2", "same")>>, <<GB("i1"), GF("i1")>>),          \* identical re-store racing with lookups
  P(<<Put("i1", "c2", "same"), Put("i1", "c2", "same")>>, <<>>, <<GB("i1"), GB("i1")>>),        \* re-store after completion
  P(<<Put("i1", "c2", "same")>>, <<Put("i1", "c3", "same")>>, <<GB("i1"), GF("i1")>>),          \* different content, same id
  P(<<Put("i1", "c2", "same")>>, <<Put("i2", "c2", "same")>>, <<GF("i2"), GB("i1")>>),          \* same content, different ids
  P(<<Put("i1", "c1", "same")>>, <<Put("i1", "c0", "same")>>, <<GB("i1"), GF("i1")>>)           \* one-byte and empty outputs
}
\* ---- C12: one Put that may crash / fail / see a misbehaving source, then fresh lookups ----
Rds == {"same", "seekerr", "short0", "short1", "lasterr", "diff"}
ProgsC12 == { P(<<Put("i1", "c2", rd)>>, <<>>, <<>>) : rd \in Rds }
            \cup { P(<<Put("i1", "c1", rd)>>, <<>>, <<>>) : rd \in {"same", "lasterr", "diff"} }
            \cup { P(<<Put("i1", "c0", "same")>>, <<>>, <<>>) }
            \cup { P(<<Put("i2", "c2", rd)>>, <<>>, <<>>) : rd \in {"same", "diff"} }

MCProgs == IF Family = "C11" THEN ProgsC11 ELSE ProgsC12
MCStarts == IF Family = "C11" THEN {SEmpty, STrimmed} ELSE {SEmpty, STrimmed, SShared, SOther, SBoth, SDamSame, SDamShort, SDamLong}

EmitStep == IF Emit /\ hist' # hist
            THEN PrintT(<<"EMIT", ToJson([prog |-> prog, start |-> base.name, sched |-> sched', hist |-> hist'])>>) ELSE TRUE
\* every initial state is also emitted as a configuration (program family x start state) for the drivers
EmitConfig == PrintT(<<"EMIT", ToJson([prog |-> prog, start |-> base.name, sched |-> <<>>, hist |-> <<>>])>>)
MCNext == Next /\ EmitStep
MCInit == Init /\ EmitConfig
MCSpec == MCInit /\ [][MCNext]_vars
=============================================================================
