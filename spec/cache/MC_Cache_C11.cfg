SPECIFICATION MCSpec
CONSTANTS
  Actors <- MCActors
  Ids <- MCIds
  Contents <- MCContents
  Size <- MCSize
  Progs <- MCProgs
  StartStates <- MCStarts
  Family = "C11"
  Bug = "none"
  AllowCrash = FALSE
  MaxFaults = 0
  Record = TRUE
  Emit = FALSE
VIEW View
INVARIANTS GetFileSound LookupsSound NoMissDuringRestore ReadableAtQuiescence OthersStayReadable
CHECK_DEADLOCK FALSE
