SPECIFICATION MCSpec
CONSTANTS
  Actors <- MCActors
  Ids <- MCIds
  Contents <- MCContents
  Size <- MCSize
  Progs <- MCProgs
  StartStates <- MCStarts
  Family = "C12"
  Bug = "none"
  AllowCrash = TRUE
  MaxFaults = 1
  Record = TRUE
  Emit = FALSE
VIEW View
INVARIANTS GetFileSound LookupsSound NoMissDuringRestore ReadableAtQuiescence OthersStayReadable
CHECK_DEADLOCK FALSE
