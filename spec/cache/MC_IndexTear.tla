---------------------------- MODULE MC_IndexTear ----------------------------
EXTENDS IndexTear, TLC, Json
CONSTANTS Emit
MCSizeOf == [c \in {"c0", "c1", "c2", "c3"} |-> CASE c = "c0" -> 0 [] c = "c1" -> 1 [] OTHER -> 21]
VARIABLES old, new, k
vars == <<old, new, k>>
E == Entry(old, new, k)
Show(r) == IF r.res = "miss" THEN "miss" ELSE r.res \o ":" \o r.content
Case == [old |-> old, new |-> new, k |-> k, getbytes |-> Show(GetBytes(E)), getfile |-> Show(GetFile(E)), stale |-> StaleSize(E)]
EmitCase == Emit => PrintT(<<"EMIT", ToJson(Case)>>)
Init == old \in Contents /\ new \in Contents /\ k = 1
Next == k < EntrySize - 1 /\ k' = k + 1 /\ UNCHANGED <<old, new>>
Spec == Init /\ [][Next]_vars
InvLawBytes == LawBytes(E)
InvLawFile  == LawFile(E)
InvEmit     == EmitCase
=============================================================================
