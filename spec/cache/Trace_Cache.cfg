SPECIFICATION TSpec
CONSTANTS
  K = 16
  Actors <- MCActors
  Ids <- MCIds
  Contents <- MCContents
  Size <- MCSize
  Progs <- MCProgs
  StartStates <- MCStarts
  Family = "C12"
  Bug = "none"
  AllowCrash = TRUE
  MaxFaults = 99
  Record = TRUE
  Emit = FALSE
INVARIANTS InvL1LookupsSound InvL1DirectPredicates InvL1Terminates InvL1OthersStayReadable InvL1StoredIsReadable InvL1NoMissDuringRestore InvL2Conformant InvL2Final InvL2GetFileSound
CHECK_DEADLOCK FALSE
