----------------------------- MODULE Trace_Cache ----------------------------
(***************************************************************************)
(* Validation of runs recorded from the real cache package (built with its *)
(* `os` import redirected to the vos shim) - bindings B2 of C11 and C12.   *)
(*                                                                         *)
(* Every line of traces.ndjson is one run: start state, program, injected  *)
(* adverse event, the sequence of observed events                          *)
(*    call(a, op, id, c, rd) | op(a, kind, file, fail, k) | ret(a, res) |  *)
(*    crash(a)                                                             *)
(* and what a fresh reader found before (base) and after (fresh) the run.  *)
(*                                                                         *)
(* Two judgements per run:                                                 *)
(*  L1 - the statement itself, as predicates over the observable record    *)
(*       (API results, fresh lookups); only these can raise an alarm;      *)
(*  L2 - conformance: the observed file operations are replayed as actions *)
(*       of Cache.tla (each event must be the operation the actor's pc     *)
(*       names; results and the final fresh reader must be what the spec   *)
(*       computes).  A mismatch is drift, reported but not an alarm.       *)
(***************************************************************************)
EXTENDS MC_Cache

CONSTANTS K
Runs == ndJsonDeserialize("traces.ndjson")

VARIABLES t, pos, l2ok
tvars == <<t, pos, l2ok, prog, data, idx, pc, ip, loc, started, completed, crashed, faults, hist, base, sched>>

StartByName(nm) == CHOOSE s \in {SEmpty, STrimmed, SShared, SOther, SBoth, SDamSame, SDamShort, SDamLong} : s.name = nm
ProgOf(r) == [a \in MCActors |-> r.prog[a]]

\* ---------------------------------------------------------------- L2 replay
Kind(l) == CASE l \in {"p_stat", "g_ustat", "o_ustat", "gf_stat", "pr_ustat"} -> "stat"
             [] l \in {"pr_open", "p_open", "i_open", "g_open", "gb_open"} -> "open"
             [] l \in {"pr_read", "g_read", "g_read2", "gb_read"} -> "read"
             [] l \in {"p_write1", "p_write2", "i_write"} -> "write"
             [] l \in {"p_trunc", "i_trunc"} -> "truncate"
             [] l \in {"pr_close", "p_close0", "p_eclose", "p_close", "p_dclose", "i_close", "i_eclose", "g_mclose", "g_close", "gb_close"} -> "close"
             [] l \in {"p_remove", "i_remove"} -> "remove"
             [] l \in {"p_chtimes", "i_chtimes", "o_uchtimes", "pr_uchtimes"} -> "chtimes"
             [] OTHER -> "none"
IsIdx(l) == l \in {"i_open", "i_write", "i_trunc", "i_close", "i_eclose", "i_remove", "i_chtimes",
                   "g_open", "g_read", "g_read2", "g_mclose", "g_ustat", "g_close"}
FileOf(a, l) == IF IsIdx(l) THEN "a:" \o Cur(a).id
                ELSE IF Cur(a).op = "put" THEN "d:" \o Cur(a).c ELSE "d:" \o loc[a].ent.out

InitRun(r) ==
  /\ prog = ProgOf(r)
  /\ LET s == StartByName(r.start) IN
     /\ data = s.data /\ idx = s.idx /\ started = s.started
     /\ base = [fresh |-> [id \in MCIds |-> BytesOf(s.data, s.idx, id)], damaged |-> s.damaged, name |-> s.name]
  /\ pc = [a \in MCActors |-> "next"] /\ ip = [a \in MCActors |-> 0]
  /\ loc = [a \in MCActors |-> NoLoc]
  /\ completed = {} /\ crashed = {} /\ faults = 0 /\ hist = <<>> /\ sched = <<>>

ResetRun(r) ==
  /\ prog' = ProgOf(r)
  /\ LET s == StartByName(r.start) IN
     /\ data' = s.data /\ idx' = s.idx /\ started' = s.started
     /\ base' = [fresh |-> [id \in MCIds |-> BytesOf(s.data, s.idx, id)], damaged |-> s.damaged, name |-> s.name]
  /\ pc' = [a \in MCActors |-> "next"] /\ ip' = [a \in MCActors |-> 0]
  /\ loc' = [a \in MCActors |-> NoLoc]
  /\ completed' = {} /\ crashed' = {} /\ faults' = 0 /\ hist' = <<>> /\ sched' = <<>>

Frozen == UNCHANGED <<prog, data, idx, pc, ip, loc, started, completed, crashed, faults, hist, base, sched>>

LastRes(a) == LET ks == {k \in 1..Len(hist) : hist[k].a = a} IN
              IF ks = {} THEN "none" ELSE hist[CHOOSE k \in ks : \A j \in ks : j <= k].res

\* the event is what the specification allows next for that actor
Matches(ev) ==
  LET a == ev.a IN
  CASE ev.ev = "call" -> /\ pc[a] = "next" /\ ip[a] < Len(prog[a])
                         /\ LET o == prog[a][ip[a] + 1] IN o.op = ev.op /\ o.id = ev.id
    [] ev.ev = "op"   -> /\ pc[a] # "next" /\ a \notin crashed
                         /\ Kind(pc[a]) = ev.op /\ FileOf(a, pc[a]) = ev.file
    [] ev.ev = "ret"  -> pc[a] = "next" /\ ip[a] > 0 /\ LastRes(a) = ev.res
    [] ev.ev = "crash" -> pc[a] # "next" /\ a \notin crashed
    [] OTHER -> FALSE

Apply(ev) ==
  LET a == ev.a IN
  CASE ev.ev = "call" -> NextOp(a)
    [] ev.ev = "op"   -> /\ OpStep(a, ev.fail, ev.k)
                         /\ faults' = faults + (IF ev.fail THEN 1 ELSE 0)
                         /\ UNCHANGED <<prog, ip, started, crashed, base, sched>>
    [] ev.ev = "ret"  -> Frozen
    [] ev.ev = "crash" -> /\ crashed' = crashed \cup {a}
                          /\ UNCHANGED <<prog, data, idx, pc, ip, loc, hist, started, completed, faults, base, sched>>

Event ==
  /\ pos < Len(Runs[t].events)
  /\ LET ev == Runs[t].events[pos + 1] IN
     IF Runs[t].family = "free" THEN Frozen /\ l2ok' = l2ok      \* free-running processes: API events only, L1 only
     ELSE IF l2ok /\ Matches(ev) THEN Apply(ev) /\ l2ok' = TRUE
     ELSE Frozen /\ l2ok' = FALSE
  /\ pos' = pos + 1 /\ t' = t

NextRun == /\ pos = Len(Runs[t].events) /\ t + K <= Len(Runs)
           /\ t' = t + K /\ pos' = 0 /\ l2ok' = TRUE /\ ResetRun(Runs[t + K])

TInit == /\ t \in 1..K /\ t <= Len(Runs) /\ pos = 0 /\ l2ok = TRUE /\ InitRun(Runs[t])
TNext == Event \/ NextRun
TSpec == TInit /\ [][TNext]_tvars

\* ---------------------------------------------------------------- L1: the statement on the record
R == Runs[t]
Evs == R.events
PutIds == {Evs[k].id : k \in {j \in 1..Len(Evs) : Evs[j].ev = "call" /\ Evs[j].op = "put"}}
StartOf == StartByName(R.start)
Known(id) == {p[2] : p \in {q \in StartOf.started : q[1] = id}}
             \cup {Evs[k].c : k \in {j \in 1..Len(Evs) : Evs[j].ev = "call" /\ Evs[j].op = "put" /\ Evs[j].id = id}}
GoodBytes(id, res) == res = "miss" \/ \E c \in Known(id) : res = "bytes:" \o c
GoodFile(id, res)  == res = "miss" \/ \E c \in Known(id) : res = "file:" \o c

\* C11/C12/C05: a lookup returns not-found or exactly what some Put stored for that very id
L1LookupsSound ==
  /\ \A k \in 1..Len(Evs) : (Evs[k].ev = "ret" /\ Evs[k].op = "getbytes") => GoodBytes(Evs[k].id, Evs[k].res)
  /\ \A k \in 1..Len(Evs) : (Evs[k].ev = "ret" /\ Evs[k].op = "getfile" /\ ~StartOf.damaged) => GoodFile(Evs[k].id, Evs[k].res)
  /\ \A id \in MCIds : GoodBytes(id, R.fresh[id \o ".getbytes"])
  /\ \A id \in MCIds : ~StartOf.damaged => GoodFile(id, R.fresh[id \o ".getfile"])
\* directly evaluated on what the API returned (SHA-256 = reported OutputID, length = reported size), no panic
L1DirectPredicates == R.l1 = <<>>
\* no deadlock, panic or endless run
L1Terminates == R.end = "done"
\* C12: a failed / interrupted Put never makes unrelated entries unreadable
L1OthersStayReadable ==
  \A id \in MCIds : (id \notin PutIds /\ R.base[id \o ".getbytes"] # "miss")
       => /\ R.fresh[id \o ".getbytes"] = R.base[id \o ".getbytes"]
          /\ (~StartOf.damaged => R.fresh[id \o ".getfile"] = R.base[id \o ".getfile"])
\* C05/C11: a Put that returned without error can be read back (last completed Put of the id wins when contents differ)
PutRets(id) == {k \in 1..Len(Evs) : Evs[k].ev = "ret" /\ Evs[k].op = "put" /\ Evs[k].id = id /\ Evs[k].res = "ok"}
PutContents(id) == {Evs[k].c : k \in {j \in 1..Len(Evs) : Evs[j].ev = "call" /\ Evs[j].op = "put" /\ Evs[j].id = id}}
NoAdverse == R.inject.kind = "none" /\ \A k \in 1..Len(Evs) : Evs[k].ev = "call" => (Evs[k].op # "put" \/ Evs[k].rd = "same")
L1StoredIsReadable ==
  \A id \in MCIds : (PutRets(id) # {} /\ NoAdverse /\ R.end = "done")
       => \E c \in PutContents(id) : R.fresh[id \o ".getbytes"] = "bytes:" \o c /\ R.fresh[id \o ".getfile"] = "file:" \o c
\* C11: re-storing identical content never makes a lookup that began after a completed Put of the id miss
CallIdx(k) == CHOOSE j \in 1..k : /\ Evs[j].ev = "call" /\ Evs[j].a = Evs[k].a
                                  /\ \A i \in (j+1)..k : ~(Evs[i].ev = "call" /\ Evs[i].a = Evs[k].a)
L1NoMissDuringRestore ==
  \A k \in 1..Len(Evs) :
     (Evs[k].ev = "ret" /\ Evs[k].op \in {"getbytes", "getfile"} /\ NoAdverse
        /\ Cardinality(PutContents(Evs[k].id) \cup Known(Evs[k].id)) = 1
        /\ \E p \in PutRets(Evs[k].id) : p < CallIdx(k))
     => Evs[k].res # "miss"

\* ---------------------------------------------------------------- reporting
AtEnd == pos = Len(Runs[t].events)
Bad(name) == PrintT(<<"BAD", name, t>>)
InvL1LookupsSound       == (pos = 0 => L1LookupsSound) \/ Bad("L1LookupsSound")
InvL1DirectPredicates   == (pos = 0 => L1DirectPredicates) \/ Bad("L1DirectPredicates")
InvL1Terminates         == (pos = 0 => L1Terminates) \/ Bad("L1Terminates")
InvL1OthersStayReadable == (pos = 0 => L1OthersStayReadable) \/ Bad("L1OthersStayReadable")
InvL1StoredIsReadable   == (pos = 0 => L1StoredIsReadable) \/ Bad("L1StoredIsReadable")
InvL1NoMissDuringRestore == (pos = 0 => L1NoMissDuringRestore) \/ Bad("L1NoMissDuringRestore")
\* L2: conformance (drift) and the design invariants in every replayed state
InvL2Conformant == l2ok \/ Bad("L2Conformant")
InvL2Final == ((AtEnd /\ l2ok /\ R.family # "free") => \A id \in MCIds : /\ FreshBytes(id) = R.fresh[id \o ".getbytes"]
                                                  /\ FreshFile(id) = R.fresh[id \o ".getfile"]) \/ Bad("L2Final")
InvL2GetFileSound == ((l2ok /\ R.family # "free") => GetFileSound) \/ Bad("L2GetFileSound")
=============================================================================
