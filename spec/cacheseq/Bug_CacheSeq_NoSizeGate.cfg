SPECIFICATION MCSpec
VIEW View
CONSTANTS
  Ids = {"i1", "i2"}
  Contents = {"c0", "c2", "c3"}
  Size <- MCSize
  Ghost = "ghost"
  Bug = "NoSizeGate"
  MaxPut = 2
  MaxDam = 2
  Emit = FALSE
INVARIANTS LawFileSound
CHECK_DEADLOCK FALSE
