SPECIFICATION Spec
CONSTANTS
  Bug = "LaxLength"
  K = 16
  Stride = 97
  Offset = 1
  Emit = FALSE
INVARIANTS LawLength
CHECK_DEADLOCK FALSE
