SPECIFICATION Spec
CONSTANTS
  Bug = "NoIdCheck"
  K = 16
  Stride = 97
  Offset = 1
  Emit = FALSE
INVARIANTS LawIdBound
CHECK_DEADLOCK FALSE
