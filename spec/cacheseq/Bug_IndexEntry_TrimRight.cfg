SPECIFICATION Spec
CONSTANTS
  Bug = "TrimRight"
  K = 16
  Stride = 97
  Offset = 1
  Emit = FALSE
INVARIANTS LawGrammar
CHECK_DEADLOCK FALSE
