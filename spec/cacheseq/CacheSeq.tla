------------------------------ MODULE CacheSeq ------------------------------
(***************************************************************************)
(* Property C05: the build cache of github.com/rogpeppe/go-internal/cache  *)
(* returns exactly what was stored, or not-found -- never other bytes.     *)
(*                                                                         *)
(* Sequential, API-level model.  One action = one call of the public API   *)
(* (Put / PutBytes, Get, GetBytes, GetFile, OutputFile) or one act of      *)
(* on-disk damage done behind the cache's back (truncate, extend, flip,    *)
(* delete, replace of an index file "<hex id>-a" or of an output file      *)
(* "<hex out>-d").  The state is the abstract directory:                   *)
(*                                                                         *)
(*   idx[id]  the index file of action id:  absent | the 175 byte entry    *)
(*            "v1 <id> <out> <size> <time>\n" for (eid, out, size),        *)
(*            possibly followed by extra bytes (len > 175) | junk of len   *)
(*            bytes (anything that is not a well-formed entry)             *)
(*   data[c]  the content-addressed output file of content c: absent or a  *)
(*            sequence of blocks; c is meant to hold Blocks(c) =           *)
(*            <<c,1>> .. <<c,Size[c]>> (vocabulary of spec/cache/Cache.tla)*)
(*            <<"x",k>> / <<"z",k>> are bytes that are not c's.            *)
(*                                                                         *)
(* SHA-256 is abstracted as "the content whose blocks these are": a block  *)
(* sequence hashes to OutputID(c) iff it equals Blocks(c) (collisions are  *)
(* assumed away).  Ghost is an output id no content hashes to.             *)
(*                                                                         *)
(* History ghosts (what the statement speaks about):                       *)
(*   promise[id] = c   Put(id, c) returned without error and since then    *)
(*                     the entry was not overwritten or damaged: sentence  *)
(*                     one of the statement fixes what lookups return      *)
(*   stored            ids stored so far, kept while the history is        *)
(*                     undamaged (an id never stored must miss)            *)
(*   nDam, nPut        number of damage / store actions so far             *)
(*   hist              the actions so far (hidden by the VIEW)             *)
(***************************************************************************)
EXTENDS Integers, Sequences, FiniteSets, TLC

CONSTANTS
  Ids,        \* action ids (strings)
  Contents,   \* contents (strings)
  Size,       \* Size[c] = number of blocks (bytes) of content c
  Ghost,      \* an output id (string) that is the hash of nothing ever stored
  Bug,        \* "none" or a seeded deviation of the implementation model
  MaxPut,     \* bound on Put actions per history
  MaxDam      \* bound on damage actions per history

VARIABLES idx, data, promise, stored, nPut, nDam, hist
vars == <<idx, data, promise, stored, nPut, nDam, hist>>
View == <<idx, data, promise, stored, nPut, nDam>>

EntrySize == 175
Outs == Contents \cup {Ghost}

Blocks(c) == [k \in 1..Size[c] |-> <<c, k>>]
NoFile    == [ex |-> FALSE, b |-> <<>>]
Full(c)   == [ex |-> TRUE, b |-> Blocks(c)]

\* index files
NoIdx      == [ex |-> FALSE, wf |-> FALSE, len |-> 0, eid |-> "-", out |-> "-", size |-> 0]
JunkIdx(n) == [ex |-> TRUE, wf |-> FALSE, len |-> n, eid |-> "-", out |-> "-", size |-> 0]
Ent(id, o, n) == [ex |-> TRUE, wf |-> TRUE, len |-> EntrySize, eid |-> id, out |-> o, size |-> n]

TypeOK ==
  /\ \A id \in Ids : LET f == idx[id] IN
        /\ f.len \in 0..(EntrySize + 2)
        /\ (f.wf => f.ex /\ f.len >= EntrySize /\ f.eid \in Ids /\ f.out \in Outs)
        /\ (~f.ex => f = NoIdx)
  /\ \A c \in Contents : (~data[c].ex => data[c] = NoFile) /\ \E d \in Contents : Len(data[c].b) <= Size[d] + 1
  /\ \A id \in Ids : promise[id] \in Contents \cup {"-"}
  /\ stored \subseteq Ids /\ nPut \in 0..MaxPut /\ nDam \in 0..MaxDam

-----------------------------------------------------------------------------
(* What the lookups return in the current state (the implementation model:  *)
(* strict entry parsing with id check, GetFile's size gate, GetBytes'       *)
(* checksum gate).  Results are records of one shape so that TLC can        *)
(* compare them.                                                            *)
Miss == [r |-> "miss", out |-> "-", size |-> 0, b |-> <<>>]
Hit(o, n, bytes) == [r |-> "hit", out |-> o, size |-> n, b |-> bytes]

\* Get accepts the index file of id iff it is exactly one well-formed entry naming id
Valid(id) == LET f == idx[id] IN f.ex /\ f.wf /\ f.len = EntrySize /\ f.eid = id

\* os.ReadFile of the output file; a missing file reads as no bytes (the error is ignored)
ReadOut(o) == IF o \in Contents /\ data[o].ex THEN data[o].b ELSE <<>>
HashIs(bytes, o) == o \in Contents /\ bytes = Blocks(o)      \* SHA-256(bytes) = OutputID o

GetRes(id) == IF Valid(id) THEN Hit(idx[id].out, idx[id].size, <<>>) ELSE Miss

BytesRes(id) ==
  IF ~Valid(id) THEN Miss
  ELSE LET o == idx[id].out  rd == ReadOut(o) IN
       IF HashIs(rd, o) \/ Bug = "NoChecksum" THEN Hit(o, idx[id].size, rd) ELSE Miss

FileRes(id) ==
  IF ~Valid(id) THEN Miss
  ELSE LET o == idx[id].out IN
       IF o \in Contents /\ data[o].ex /\ (Len(data[o].b) = idx[id].size \/ Bug = "NoSizeGate")
       THEN Hit(o, idx[id].size, data[o].b) ELSE Miss

-----------------------------------------------------------------------------
Step(op, id, c, n, s) == [op |-> op, id |-> id, c |-> c, n |-> n, s |-> s]

Init ==
  /\ idx = [id \in Ids |-> NoIdx]
  /\ data = [c \in Contents |-> NoFile]
  /\ promise = [id \in Ids |-> "-"]
  /\ stored = {}
  /\ nPut = 0 /\ nDam = 0 /\ hist = <<>>

(* Put(id, c): hash pass, copyFile (an existing file of the right size is   *)
(* trusted only after re-hashing it; otherwise the file is rewritten from   *)
(* offset 0, with O_TRUNC when it is longer), then the index entry is       *)
(* written at offset 0 and the file truncated to the entry size afterwards. *)
(* via: "put" (io.ReadSeeker) or "putbytes".                                *)
PutData(c) ==
  LET old == data[c] IN
  IF Bug = "NoRehash" /\ old.ex /\ Len(old.b) = Size[c] THEN old
  ELSE IF Bug = "NoOTrunc" /\ old.ex /\ Len(old.b) > Size[c]
       THEN [ex |-> TRUE, b |-> Blocks(c) \o SubSeq(old.b, Size[c] + 1, Len(old.b))]
  ELSE Full(c)
PutIdx(id, c) ==
  LET old == idx[id] IN
  IF Bug = "NoIdxTrunc" /\ old.ex /\ old.len > EntrySize
  THEN [Ent(id, c, Size[c]) EXCEPT !.len = old.len]
  ELSE Ent(id, c, Size[c])

Put(id, c, via) ==
  /\ nPut < MaxPut
  /\ data' = [data EXCEPT ![c] = PutData(c)]
  /\ idx' = [idx EXCEPT ![id] = PutIdx(id, c)]
  /\ promise' = [promise EXCEPT ![id] = c]
  /\ stored' = IF nDam = 0 THEN stored \cup {id} ELSE stored
  /\ nPut' = nPut + 1 /\ UNCHANGED nDam
  /\ hist' = Append(hist, Step(via, id, c, 0, "-"))

\* lookups change nothing on disk that this property is about (mtimes are C13's subject)
Lookup(op, id) ==
  /\ UNCHANGED <<idx, data, promise, stored, nPut, nDam>>
  /\ hist' = Append(hist, Step(op, id, "-", 0, "-"))
OutputFile(o) ==
  /\ UNCHANGED <<idx, data, promise, stored, nPut, nDam>>
  /\ hist' = Append(hist, Step("outputfile", "-", o, 0, "-"))

\* ---- damage, done with plain file operations behind the cache's back ----
Damaged(what, ids, cs) ==
  /\ nDam < MaxDam
  /\ nDam' = nDam + 1 /\ UNCHANGED nPut
  /\ stored' = {}
  /\ promise' = [id \in Ids |-> IF id \in ids \/ promise[id] \in cs THEN "-" ELSE promise[id]]
  /\ hist' = Append(hist, what)

IdxTruncs == {0, 67, 174, 175}
IdxFields == {"hdr", "id", "out", "size", "time", "nl"}   \* one byte of that field becomes 'Z'
ForgeSizes(o) == IF o = Ghost THEN {0} ELSE {Size[o], Size[o] + 1}

ITrunc(id, n) ==
  /\ idx[id].wf /\ n < idx[id].len
  /\ idx' = [idx EXCEPT ![id] = IF n >= EntrySize THEN [@ EXCEPT !.len = n] ELSE JunkIdx(n)]
  /\ UNCHANGED data /\ Damaged(Step("itrunc", id, "-", n, "-"), {id}, {})
IExtend(id, k) ==
  /\ idx[id].wf /\ idx[id].len + k <= EntrySize + 2
  /\ idx' = [idx EXCEPT ![id].len = @ + k]
  /\ UNCHANGED data /\ Damaged(Step("iextend", id, "-", k, "-"), {id}, {})
IFlip(id, fld) ==
  /\ idx[id].wf
  \* damage confined to the tail of the entry (time stamp, newline) is kept apart from damage further up: everything the
  \* entry says about the output is still intact there, so histories that go on from it (a store of the same content,
  \* say) are explored in their own right and not through a representative with a damaged head
  /\ idx' = [idx EXCEPT ![id] = [JunkIdx(@.len) EXCEPT !.eid = IF fld \in {"time", "nl"} THEN "-tail" ELSE "-"]]
  /\ UNCHANGED data /\ Damaged(Step("iflip", id, "-", 0, fld), {id}, {})
IDelete(id) ==
  /\ idx[id].ex
  /\ idx' = [idx EXCEPT ![id] = NoIdx]
  /\ UNCHANGED data /\ Damaged(Step("idelete", id, "-", 0, "-"), {id}, {})
\* the index file of id is replaced by a copy of the index file of another id
ICopy(id, from) ==
  /\ id # from /\ idx[from].ex /\ idx[id] # idx[from]
  /\ idx' = [idx EXCEPT ![id] = idx[from]]
  /\ UNCHANGED data /\ Damaged(Step("icopy", id, "-", 0, from), {id}, {})
\* the index file of id is replaced by a well-formed entry for id naming output o with size n
IForge(id, o, n) ==
  /\ idx[id] # Ent(id, o, n)
  /\ idx' = [idx EXCEPT ![id] = Ent(id, o, n)]
  /\ UNCHANGED data /\ Damaged(Step("iforge", id, o, n, "-"), {id}, {})

DTrunc(c, n) ==
  /\ data[c].ex /\ n < Len(data[c].b)
  /\ data' = [data EXCEPT ![c].b = SubSeq(@, 1, n)]
  /\ UNCHANGED idx /\ Damaged(Step("dtrunc", "-", c, n, "-"), {}, {c})
DExtend(c) ==
  /\ data[c].ex /\ Len(data[c].b) <= Size[c]
  /\ data' = [data EXCEPT ![c].b = Append(@, <<"x", Len(@) + 1>>)]
  /\ UNCHANGED idx /\ Damaged(Step("dextend", "-", c, 1, "-"), {}, {c})
DFlip(c, p) ==
  /\ data[c].ex /\ p \in 1..Len(data[c].b) /\ data[c].b[p] # <<"z", p>>
  /\ data' = [data EXCEPT ![c].b[p] = <<"z", p>>]
  /\ UNCHANGED idx /\ Damaged(Step("dflip", "-", c, p, "-"), {}, {c})
DDelete(c) ==
  /\ data[c].ex
  /\ data' = [data EXCEPT ![c] = NoFile]
  /\ UNCHANGED idx /\ Damaged(Step("ddelete", "-", c, 0, "-"), {}, {c})
\* the output file of c is overwritten with the bytes of another content
DReplace(c, by) ==
  /\ c # by /\ data[c] # Full(by)
  /\ data' = [data EXCEPT ![c] = Full(by)]
  /\ UNCHANGED idx /\ Damaged(Step("dreplace", "-", c, 0, by), {}, {c})

Store  == \E id \in Ids, c \in Contents, via \in {"put", "putbytes"} : Put(id, c, via)
Look   == \/ \E id \in Ids, op \in {"get", "getbytes", "getfile"} : Lookup(op, id)
          \/ \E o \in Outs : OutputFile(o)
Damage == \/ \E id \in Ids :
               \/ \E n \in IdxTruncs : ITrunc(id, n)
               \/ \E k \in {1, 2} : IExtend(id, k)
               \/ \E fld \in IdxFields : IFlip(id, fld)
               \/ IDelete(id)
               \/ \E from \in Ids : ICopy(id, from)
               \/ \E o \in Outs : \E n \in ForgeSizes(o) : IForge(id, o, n)
          \/ \E c \in Contents :
               \/ \E n \in {0} \cup {k \in {Len(data[c].b) - 1} : k > 0} : DTrunc(c, n)
               \/ DExtend(c)
               \/ \E p \in {1, Len(data[c].b)} : DFlip(c, p)
               \/ DDelete(c)
               \/ \E by \in Contents : DReplace(c, by)

Next == Store \/ Look \/ Damage
Spec == Init /\ [][Next]_vars

-----------------------------------------------------------------------------
(* The sentences of the statement.                                          *)

\* (1) After Put(id, data) returns without error, GetBytes(id) returns exactly data and
\*     GetFile(id) names a file holding exactly data, until that entry is overwritten or damaged.
LawStoredComesBack ==
  \A id \in Ids : promise[id] # "-" =>
     LET c == promise[id] IN
     /\ BytesRes(id).r = "hit" /\ BytesRes(id).out = c /\ BytesRes(id).b = Blocks(c)
     /\ FileRes(id).r = "hit" /\ FileRes(id).out = c /\ FileRes(id).b = Blocks(c)

\* (2) whatever state the files are in: GetBytes returns not-found or bytes whose SHA-256 is the reported OutputID
LawBytesSound == \A id \in Ids : BytesRes(id).r = "hit" => HashIs(BytesRes(id).b, BytesRes(id).out)

\* (3) ... GetFile returns not-found or a file whose length equals the reported size
LawFileSound == \A id \in Ids : FileRes(id).r = "hit" => Len(FileRes(id).b) = FileRes(id).size

\* (4) a later Put of the same content repairs a damaged stored output
LawRepair == \A id \in Ids : promise[id] # "-" => data[promise[id]] = Full(promise[id])

\* (5) exactly what was stored or not-found: without damage an id that was never stored misses
LawNeverStoredMisses ==
  nDam = 0 => \A id \in Ids : id \notin stored => (GetRes(id) = Miss /\ BytesRes(id) = Miss /\ FileRes(id) = Miss)

\* bookkeeping of the ghosts: without damage, the promise is exactly the index
GhostsConsistent ==
  nDam = 0 => /\ stored = {id \in Ids : idx[id].ex}
              /\ \A id \in Ids : (promise[id] # "-") = (id \in stored)
=============================================================================
