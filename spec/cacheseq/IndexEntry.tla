----------------------------- MODULE IndexEntry -----------------------------
(***************************************************************************)
(* The index entry of the build cache (cache/cache.go, const entrySize):   *)
(*                                                                         *)
(*   "v1 <hex id> <hex out> <decimal size space-padded to 20 bytes>        *)
(*       <unixnano space-padded to 20 bytes>\n"        = 175 bytes         *)
(*                                                                         *)
(* Reference semantics of "which byte strings does Get accept as the index *)
(* file of action id, and which (out, size) does it report".  Bytes are    *)
(* naturals.  A hash is a sequence of 64 nibble values 0..15.  Numbers in  *)
(* the two decimal fields can have 20 digits, more than TLC's integers     *)
(* hold: a parsed number is its sequence of digit values without leading   *)
(* zeros, and the int64 range check is a comparison of digit sequences.    *)
(***************************************************************************)
EXTENDS Integers, Sequences, FiniteSets

CONSTANT Bug    \* "none" | "NoIdCheck" | "LaxLength" | "TrimRight" : seeded deviations (sanity of the laws)

EntrySize == 175
HexSize   == 64
SP == 32
LF == 10

IsDigit(b) == b \in 48..57
IsHexL(b)  == b \in 97..102
IsHexU(b)  == b \in 65..70
IsHex(b)   == IsDigit(b) \/ IsHexL(b) \/ IsHexU(b)
HexVal(b)  == IF IsDigit(b) THEN b - 48 ELSE IF IsHexL(b) THEN b - 87 ELSE b - 55
HexChar(v) == IF v < 10 THEN 48 + v ELSE 87 + v            \* %x prints lower case

\* 1-based positions of the fields
IdAt   == 4      \* .. 67
OutAt  == 69     \* .. 132
SizeAt == 134    \* .. 153
TimeAt == 155    \* .. 174
IdF(e)   == SubSeq(e, IdAt, IdAt + HexSize - 1)
OutF(e)  == SubSeq(e, OutAt, OutAt + HexSize - 1)
SizeF(e) == SubSeq(e, SizeAt, SizeAt + 19)
TimeF(e) == SubSeq(e, TimeAt, TimeAt + 19)

HeaderOK(e) == /\ e[1] = 118 /\ e[2] = 49 /\ e[3] = SP          \* "v1 "
               /\ e[OutAt - 1] = SP /\ e[SizeAt - 1] = SP /\ e[TimeAt - 1] = SP
               /\ e[EntrySize] = LF

AllHex(f) == \A i \in 1..Len(f) : IsHex(f[i])
Nibbles(f) == [i \in 1..Len(f) |-> HexVal(f[i])]

-----------------------------------------------------------------------------
(* strconv.ParseInt(field without its leading spaces, 10, 64)              *)
Max63 == <<9,2,2,3,3,7,2,0,3,6,8,5,4,7,7,5,8,0,7>>      \* 2^63 - 1
Min63 == <<9,2,2,3,3,7,2,0,3,6,8,5,4,7,7,5,8,0,8>>      \* magnitude of -2^63

\* index of the first element of f that differs from x (Len(f) + 1 if none)
FirstNot(f, x) == IF \A i \in 1..Len(f) : f[i] = x THEN Len(f) + 1
                  ELSE CHOOSE i \in 1..Len(f) : f[i] # x /\ \A j \in 1..(i - 1) : f[j] = x
DropLeading(f, x) == SubSeq(f, FirstNot(f, x), Len(f))

\* digit values without leading zeros ("0" stays <<0>>)
Norm(ds) == LET r == DropLeading(ds, 0) IN IF r = <<>> THEN <<0>> ELSE r
\* a <= b for digit sequences without leading zeros
NumLE(a, b) == \/ Len(a) < Len(b)
               \/ /\ Len(a) = Len(b)
                  /\ \/ a = b
                     \/ \E k \in 1..Len(a) : a[k] < b[k] /\ \A j \in 1..(k - 1) : a[j] = b[j]

\* result: [k |-> "syntax" | "range" | "neg" | "ok", v |-> digit values of the magnitude]
ParseField(f) ==
  LET r0   == DropLeading(f, SP)
      r    == IF Bug = "TrimRight" /\ r0 # <<>> /\ r0[Len(r0)] = SP THEN SubSeq(r0, 1, Len(r0) - 1) ELSE r0
      sgn  == IF r # <<>> /\ r[1] \in {43, 45} THEN r[1] ELSE 0
      ds   == IF sgn # 0 THEN Tail(r) ELSE r
  IN IF ds = <<>> \/ \E i \in 1..Len(ds) : ~IsDigit(ds[i]) THEN [k |-> "syntax", v |-> <<>>]
     ELSE LET v == Norm([i \in 1..Len(ds) |-> ds[i] - 48]) IN
          IF sgn = 45 THEN (IF ~NumLE(v, Min63) THEN [k |-> "range", v |-> <<>>]
                            ELSE IF v = <<0>> THEN [k |-> "ok", v |-> v]       \* "-0" is 0
                            ELSE [k |-> "neg", v |-> v])
          ELSE IF ~NumLE(v, Max63) THEN [k |-> "range", v |-> <<>>]
          ELSE [k |-> "ok", v |-> v]

-----------------------------------------------------------------------------
(* Get(id) on an index file holding the bytes e.  `why` follows the order   *)
(* of the checks in the code and names the reason it reports.               *)
Reject(why) == [acc |-> FALSE, why |-> why, out |-> <<>>, size |-> <<>>]

Parse(e, id) ==
  IF Len(e) = 0 THEN Reject("file is empty")
  ELSE IF Len(e) > EntrySize /\ Bug # "LaxLength" THEN Reject("too long")
  ELSE IF Len(e) < EntrySize THEN Reject("entry file incomplete")
  ELSE IF ~HeaderOK(e) THEN Reject("invalid header")
  ELSE IF ~AllHex(IdF(e)) THEN Reject("decoding ID")
  ELSE IF Nibbles(IdF(e)) # id /\ Bug # "NoIdCheck" THEN Reject("mismatched ID")
  ELSE IF ~AllHex(OutF(e)) THEN Reject("decoding output ID")
  ELSE LET sz == ParseField(SizeF(e))  tm == ParseField(TimeF(e)) IN
       IF sz.k \in {"syntax", "range"} THEN Reject("parsing size")
       ELSE IF sz.k = "neg" THEN Reject("negative size")
       ELSE IF tm.k \in {"syntax", "range"} THEN Reject("parsing timestamp")
       ELSE IF tm.k = "neg" THEN Reject("negative timestamp")
       ELSE [acc |-> TRUE, why |-> "ok", out |-> Nibbles(OutF(e)), size |-> sz.v]

-----------------------------------------------------------------------------
(* What putIndexEntry writes: fmt.Sprintf("v1 %x %x %20d %20d\n", ...)      *)
Pad20(ds) == [i \in 1..(20 - Len(ds)) |-> SP] \o [i \in 1..Len(ds) |-> 48 + ds[i]]
Format(id, out, size, time) ==
  <<118, 49, SP>> \o [i \in 1..HexSize |-> HexChar(id[i])] \o <<SP>> \o [i \in 1..HexSize |-> HexChar(out[i])]
  \o <<SP>> \o Pad20(size) \o <<SP>> \o Pad20(time) \o <<LF>>

-----------------------------------------------------------------------------
(* Fixtures shared by MC_IndexEntry and Trace_IndexEntry (the driver uses   *)
(* the same action ids and content).                                        *)
\* SHA-256("verif action i1"), SHA-256("verif action i2"), SHA-256("abc") as nibbles
I1 == <<13, 14, 10, 2, 8, 7, 11, 5, 15, 5, 5, 9, 2, 0, 0, 7, 1, 0, 14, 8, 10, 14, 12, 1, 7, 14, 7, 1, 3, 0, 14, 13,
        12, 13, 15, 7, 1, 5, 1, 5, 9, 14, 8, 14, 0, 15, 11, 5, 4, 14, 11, 8, 8, 11, 9, 4, 8, 6, 8, 4, 12, 5, 15, 4>>
I2 == <<10, 12, 12, 3, 4, 5, 2, 6, 1, 14, 9, 12, 12, 15, 5, 9, 14, 5, 0, 12, 3, 11, 0, 2, 1, 12, 0, 2, 5, 12, 14, 14,
        12, 11, 8, 8, 0, 14, 15, 12, 8, 5, 6, 3, 0, 6, 14, 12, 10, 10, 6, 10, 7, 8, 15, 14, 15, 0, 14, 0, 0, 4, 2, 5>>
OutABC == <<11, 10, 7, 8, 1, 6, 11, 15, 8, 15, 0, 1, 12, 15, 14, 10, 4, 1, 4, 1, 4, 0, 13, 14, 5, 13, 10, 14, 2, 2, 2, 3,
            11, 0, 0, 3, 6, 1, 10, 3, 9, 6, 1, 7, 7, 10, 9, 12, 11, 4, 1, 0, 15, 15, 6, 1, 15, 2, 0, 0, 1, 5, 10, 13>>
=============================================================================
