SPECIFICATION MCSpec
VIEW View
CONSTANTS
  Ids = {"i1", "i2"}
  Contents = {"c0", "c2", "c3"}
  Size <- MCSize
  Ghost = "ghost"
  Bug = "none"
  MaxPut = 2
  MaxDam = 2
  Emit = TRUE
INVARIANTS TypeOK LawStoredComesBack LawBytesSound LawFileSound LawRepair LawNeverStoredMisses GhostsConsistent
CHECK_DEADLOCK FALSE
