----------------------------- MODULE MC_CacheSeq -----------------------------
(***************************************************************************)
(* Bounded instance of CacheSeq and case generator (binding A).            *)
(*                                                                         *)
(* TLC explores every history of at most MaxPut stores and MaxDam acts of  *)
(* damage, checks the laws of CacheSeq in every state, and -- the history  *)
(* being hidden by the VIEW -- emits one test per state-changing           *)
(* transition s -a-> s' of the state graph: a representative path to s,    *)
(* the action a, what the model predicts for it, the directory in s' and   *)
(* the outcome of every lookup in s' together with the sentence of the     *)
(* statement (if any) that fixes it.  The lookups (Get, GetBytes, GetFile, *)
(* OutputFile) do not change the state: they are the self-loops of s' and  *)
(* are all exercised by the test that reaches s' (one more test for the    *)
(* initial state), instead of one replay of the path per lookup.           *)
(* harness/drivers/cacheseq replays each test into the real cache package. *)
(***************************************************************************)
EXTENDS CacheSeq, Json

CONSTANTS Emit

\* concrete contents: block k of content c is the byte MCStr[c][k]; "X" and "Z" never occur in them
MCSize == ("c0" :> 0) @@ ("c1" :> 1) @@ ("c2" :> 3) @@ ("c3" :> 3) @@ ("c4" :> 5)
MCStr  == ("c0" :> <<>>) @@ ("c1" :> <<"q">>) @@ ("c2" :> <<"a", "b", "c">>) @@ ("c3" :> <<"d", "e", "f">>)
          @@ ("c4" :> <<"g", "h", "i", "j", "k">>)

RECURSIVE RenderB(_)
RenderB(b) == IF b = <<>> THEN ""
              ELSE LET h == Head(b) IN
                   (IF h[1] \in Contents THEN MCStr[h[1]][h[2]] ELSE IF h[1] = "x" THEN "X" ELSE "Z") \o RenderB(Tail(b))

\* compact renderings (one emitted line per transition: keep them short)
RenderRes(res) == IF res.r = "miss" THEN "miss"
                  ELSE "hit " \o res.out \o " " \o ToString(res.size) \o " " \o RenderB(res.b)
RenderStep(st) == st.op \o " " \o st.id \o " " \o st.c \o " " \o ToString(st.n) \o " " \o st.s
RenderIdx(f) == IF ~f.ex THEN "none"
                ELSE IF ~f.wf THEN "junk " \o ToString(f.len)
                ELSE "wf " \o ToString(f.len) \o " " \o f.eid \o " " \o f.out \o " " \o ToString(f.size)
RenderData(d) == IF d.ex THEN "=" \o RenderB(d.b) ELSE "-"

\* the judged action is the last of the new history
LastStep == hist'[Len(hist')]
NoStep == [op |-> "none", id |-> "-", c |-> "-", n |-> 0, s |-> "-"]

IsLookup(st) == st.op \in {"get", "getbytes", "getfile"}
IsPut(st) == st.op \in {"put", "putbytes"}

\* which sentence of the statement fixes the outcome of a lookup of id in the current state
LawFor(id) == IF promise[id] # "-" THEN "stored-comes-back"
              ELSE IF nDam = 0 /\ id \notin stored THEN "never-stored-misses"
              ELSE "none"

\* (lookups leave the state unchanged, and repair is about the state before the Put: unprimed)
Expect(st) ==
  IF IsLookup(st)
  THEN [res |-> RenderRes(CASE st.op = "get" -> GetRes(st.id)
                            [] st.op = "getbytes" -> BytesRes(st.id)
                            [] OTHER -> FileRes(st.id)),
        law |-> LawFor(st.id), repair |-> FALSE]
  ELSE IF IsPut(st)
  THEN [res |-> RenderRes(Hit(st.c, Size[st.c], Blocks(st.c))), law |-> "stored-comes-back",
        \* the output was there and wrong, or gone from under an entry that names it
        repair |-> \/ (data[st.c].ex /\ data[st.c].b # Blocks(st.c))
                   \/ (~data[st.c].ex /\ \E i \in Ids : idx[i].wf /\ idx[i].out = st.c)]
  ELSE [res |-> "-", law |-> "none", repair |-> FALSE]

Case == [p |-> [k \in 1..Len(hist') |-> RenderStep(hist'[k])],
         e |-> Expect(LastStep),
         nd |-> nDam',
         idx  |-> [id \in Ids |-> RenderIdx(idx'[id])],
         data |-> [c \in Contents |-> RenderData(data'[c])],
         \* what every lookup returns afterwards and which law (if any) fixes it
         look |-> [id \in Ids |-> <<RenderRes(GetRes(id)'), RenderRes(BytesRes(id)'), RenderRes(FileRes(id)'), LawFor(id)'>>]]

\* number of self-loops of every state (the check uses it to verify that nothing was left out)
LookupsPerState == 3 * Cardinality(Ids) + Cardinality(Outs)

Config == [config |-> [str |-> [c \in Contents |-> RenderB(Blocks(c))], ghost |-> Ghost, ids |-> Ids,
                       maxput |-> MaxPut, maxdam |-> MaxDam, lookups |-> LookupsPerState]]

Changes(st) == ~IsLookup(st) /\ st.op # "outputfile"

EmitCase == IF Emit /\ Changes(LastStep) THEN PrintT(<<"EMIT", ToJson(Case)>>) ELSE TRUE
EmitConfig == IF Emit THEN PrintT(<<"EMIT", ToJson(Config)>>) ELSE TRUE

\* the initial state is a test with an empty path: the lookups of an empty cache
InitCase == [p |-> <<>>, e |-> Expect(NoStep), nd |-> 0,
             idx  |-> [id \in Ids |-> RenderIdx(idx[id])],
             data |-> [c \in Contents |-> RenderData(data[c])],
             look |-> [id \in Ids |-> <<RenderRes(GetRes(id)), RenderRes(BytesRes(id)), RenderRes(FileRes(id)), LawFor(id)>>]]
MCInit == Init /\ EmitConfig /\ (IF Emit THEN PrintT(<<"EMIT", ToJson(InitCase)>>) ELSE TRUE)
MCNext == Next /\ EmitCase
MCSpec == MCInit /\ [][MCNext]_vars
=============================================================================
