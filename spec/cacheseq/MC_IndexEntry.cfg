SPECIFICATION Spec
CONSTANTS
  Bug = "none"
  K = 16
  Stride = 97
  Offset = 1
  Emit = TRUE
INVARIANTS LawGrammar LawIdBound LawLength LawShape LawRoundTrip LawGates
CHECK_DEADLOCK FALSE
