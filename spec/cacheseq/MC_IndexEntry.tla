---------------------------- MODULE MC_IndexEntry ----------------------------
(***************************************************************************)
(* Enumerator of near-valid index entries (binding A) and the laws of the  *)
(* entry grammar.  The canonical entry is what the real Put writes for     *)
(* action id I1 = SHA-256("verif action i1") and the content "abc"; every  *)
(* case is derived from it:                                                *)
(*   one   one byte substituted, at every position, by every byte of Subs  *)
(*   cut   every truncation (0 .. 174 bytes)                               *)
(*   ext   one or two bytes appended                                       *)
(*   two   two bytes substituted, positions from the field boundaries      *)
(*         (sampled with Stride / Offset; Stride = 1 takes all)            *)
(* The cases are numbered; the state is the case number, which runs in K   *)
(* lanes so that TLC's workers share the work.  Per case TLC checks the    *)
(* laws below and emits the bytes with the prediction: accepted or not and *)
(* why, the reported (out, size), and what GetBytes / GetFile return when  *)
(* the output file of "abc" is in place and intact.                        *)
(***************************************************************************)
EXTENDS IndexEntry, TLC, Json

CONSTANTS K, Stride, Offset, Emit

SizeABC == <<3>>
TimeC   == <<1,7,9,0,0,0,0,0,0,0,0,0,0,0,0,0,0,0,1>>          \* 19 digits, as time.Now().UnixNano() has

Canon == Format(I1, OutABC, SizeABC, TimeC)

\* substitutes: fixed bytes  v 1 SP a F 7 0 + - LF Z NUL 0xff,  and two single-bit flips of the original byte
Fixed == <<118, 49, 32, 97, 70, 55, 48, 43, 45, 10, 90, 0, 255>>
NSub == Len(Fixed) + 2
Xor1(b)  == IF b % 2 = 0 THEN b + 1 ELSE b - 1
Xor32(b) == IF (b \div 32) % 2 = 0 THEN b + 32 ELSE b - 32      \* toggles the case of a letter
SubByte(j, orig) == IF j <= Len(Fixed) THEN Fixed[j] ELSE IF j = Len(Fixed) + 1 THEN Xor1(orig) ELSE Xor32(orig)

\* positions (1-based) around every field boundary, for the double substitutions
Edge == <<1, 2, 3, 4, 5, 36, 67, 68, 69, 70, 132, 133, 134, 135, 152, 153, 154, 155, 156, 173, 174, 175>>
NE == Len(Edge)
ExtBytes == <<10, 32, 90>>

NOne == EntrySize * NSub
NCut == EntrySize
NExt == Len(ExtBytes) + Len(ExtBytes) * Len(ExtBytes)
NTwoAll == NE * NE * NSub * NSub
NTwo == IF Offset >= NTwoAll THEN 0 ELSE ((NTwoAll - 1 - Offset) \div Stride) + 1
Total == 1 + NOne + NCut + NExt + NTwo

Sub1(e, p, j) == [e EXCEPT ![p] = SubByte(j, e[p])]

\* case number m (0-based) -> [kind, e, skip]
CaseOf(m) ==
  IF m = 0 THEN [kind |-> "canon", e |-> Canon, skip |-> FALSE]
  ELSE IF m <= NOne THEN
       LET n == m - 1  p == (n \div NSub) + 1  j == (n % NSub) + 1 IN
       [kind |-> "one", e |-> Sub1(Canon, p, j), skip |-> FALSE]
  ELSE IF m <= NOne + NCut THEN
       [kind |-> "cut", e |-> SubSeq(Canon, 1, m - NOne - 1), skip |-> FALSE]
  ELSE IF m <= NOne + NCut + NExt THEN
       LET n == m - NOne - NCut - 1  L == Len(ExtBytes) IN
       IF n < L THEN [kind |-> "ext", e |-> Append(Canon, ExtBytes[n + 1]), skip |-> FALSE]
       ELSE [kind |-> "ext", e |-> Canon \o <<ExtBytes[((n - L) \div L) + 1], ExtBytes[((n - L) % L) + 1]>>, skip |-> FALSE]
  ELSE LET d  == Offset + (m - NOne - NCut - NExt - 1) * Stride
           q  == d \div (NSub * NSub)      s  == d % (NSub * NSub)
           a  == (q \div NE) + 1           b  == (q % NE) + 1
           j1 == (s \div NSub) + 1         j2 == (s % NSub) + 1 IN
       IF a >= b THEN [kind |-> "two", e |-> Canon, skip |-> TRUE]      \* unordered pairs once
       ELSE [kind |-> "two", e |-> Sub1(Sub1(Canon, Edge[a], j1), Edge[b], j2), skip |-> FALSE]

VARIABLE m
vars == <<m>>

Cur == CaseOf(m)
Res == Parse(Cur.e, I1)

\* lookups with the output file of "abc" (3 bytes, SHA-256 = OutABC) in place and nothing else in the cache:
\* GetBytes hits iff the entry is accepted and the bytes of the file it names hash to the reported id;
\* GetFile hits iff the named file exists and has the reported size
BytesHit(r) == r.acc /\ r.out = OutABC
FileHit(r)  == r.acc /\ r.out = OutABC /\ r.size = SizeABC

Config == [config |-> [id |-> I1, out |-> OutABC, content |-> <<97, 98, 99>>, canon |-> Canon, total |-> Total]]

EmitCase(x) == IF Emit /\ ~CaseOf(x).skip
               THEN LET c == CaseOf(x)  r == Parse(c.e, I1) IN
                    PrintT(<<"EMIT", ToJson([m |-> x, kind |-> c.kind, e |-> c.e, acc |-> r.acc, why |-> r.why, out |-> r.out,
                                             size |-> r.size, bytes |-> BytesHit(r), file |-> FileHit(r), changed |-> c.e # Canon])>>)
               ELSE TRUE

Init == m \in 0..(K - 1) /\ m < Total /\ EmitCase(m) /\ (m = 0 => (~Emit \/ PrintT(<<"EMIT", ToJson(Config)>>)))
Next == m + K < Total /\ m' = m + K /\ EmitCase(m')
Spec == Init /\ [][Next]_vars

-----------------------------------------------------------------------------
(* The entry grammar once more, statement shaped: a regular expression      *)
(* with value constraints instead of the order of checks in the code.       *)
\* SP* [+-]? digit+   filling the 20 bytes, value in 0 .. 2^63-1 ("-0" is zero)
NumberField(f) ==
  \E k \in 0..19 :                                  \* k leading spaces
     /\ \A i \in 1..k : f[i] = SP
     /\ LET r == SubSeq(f, k + 1, 20)
            ds == IF r[1] \in {43, 45} THEN Tail(r) ELSE r IN
        /\ r[1] # SP
        /\ ds # <<>> /\ \A i \in 1..Len(ds) : IsDigit(ds[i])
        /\ LET v == Norm([i \in 1..Len(ds) |-> ds[i] - 48]) IN
           /\ NumLE(v, Max63)
           /\ (r[1] = 45 => v = <<0>>)
WellFormed(e) ==
  /\ Len(e) = EntrySize
  /\ SubSeq(e, 1, 3) = <<118, 49, SP>>
  /\ AllHex(IdF(e)) /\ e[OutAt - 1] = SP
  /\ AllHex(OutF(e)) /\ e[SizeAt - 1] = SP
  /\ NumberField(SizeF(e)) /\ e[TimeAt - 1] = SP
  /\ NumberField(TimeF(e)) /\ e[EntrySize] = LF

\* ---- laws (INVARIANTS), evaluated on the current case ----
\* Get accepts exactly the well-formed entries that name the id asked for
LawGrammar == Res.acc = (WellFormed(Cur.e) /\ Nibbles(IdF(Cur.e)) = I1)
\* an entry is bound to one id: what Get(I1) accepts, Get(I2) rejects (an index file copied from another id misses)
LawIdBound == Res.acc => ~Parse(Cur.e, I2).acc
\* exactly one entry, nothing after it
LawLength == Res.acc => Len(Cur.e) = EntrySize
\* the reported values are a hash and a size
LawShape == Res.acc => /\ Len(Res.out) = HexSize /\ \A i \in 1..HexSize : Res.out[i] \in 0..15
                       /\ Res.size = Norm(Res.size) /\ NumLE(Res.size, Max63)
\* what Put writes, Get reads back (sizes and times at the ends of the range)
SizeSamples == {<<0>>, <<3>>, <<1,0,0,0,0,0,0,0,0,0,0,0,0,0,0,0,0,0,0>>, Max63}
LawRoundTrip == m = 0 => \A sz \in SizeSamples, tm \in {<<0>>, TimeC, Max63} :
                   LET r == Parse(Format(I1, OutABC, sz, tm), I1) IN r.acc /\ r.out = OutABC /\ r.size = sz
\* the gates of the statement on this directory: bytes only under their own hash, a file only with its size
LawGates == /\ BytesHit(Res) => Res.out = OutABC
            /\ FileHit(Res) => Res.size = SizeABC
=============================================================================
