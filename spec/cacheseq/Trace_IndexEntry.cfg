SPECIFICATION Spec
CONSTANTS
  K = 16
  Bug = "none"
INVARIANTS RecNoPanic RecAccept RecValue
CHECK_DEADLOCK FALSE
