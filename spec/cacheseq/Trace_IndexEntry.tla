--------------------------- MODULE Trace_IndexEntry ---------------------------
(***************************************************************************)
(* Validation of records produced by the real cache package (binding B1):  *)
(* the driver writes seeded random byte strings as the index file of I1 or *)
(* I2, calls the real Get and records what it returned; TLC evaluates the  *)
(* entry grammar of IndexEntry.tla on every record.  Records are           *)
(* independent: the index runs in K lanes.                                 *)
(***************************************************************************)
EXTENDS IndexEntry, TLC, Json

CONSTANTS K

Trace == ndJsonDeserialize("trace.ndjson")

VARIABLE i
vars == <<i>>

Init == i \in 1..K
Next == i + K <= Len(Trace) /\ i' = i + K
Spec == Init /\ [][Next]_vars

IdOf(r) == IF r.id = 1 THEN I1 ELSE I2
Bad(name) == PrintT(<<"BAD", name, i>>)

\* no lookup panics, whatever the bytes
RecNoPanic == (i <= Len(Trace) => ~Trace[i].panic) \/ Bad("RecNoPanic")
\* the real Get accepts exactly what the grammar accepts ...
RecAccept == ((i <= Len(Trace) /\ ~Trace[i].panic) => Parse(Trace[i].e, IdOf(Trace[i])).acc = Trace[i].acc) \/ Bad("RecAccept")
\* ... and reports the (out, size) the grammar reads
RecValue == ((i <= Len(Trace) /\ ~Trace[i].panic /\ Trace[i].acc) =>
               LET p == Parse(Trace[i].e, IdOf(Trace[i])) IN p.acc => (p.out = Trace[i].out /\ p.size = Trace[i].size))
            \/ Bad("RecValue")
=============================================================================
