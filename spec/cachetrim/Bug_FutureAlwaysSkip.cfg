\* seeded deviation FutureAlwaysSkip: TLC must report that LawDueRuns is violated (run by bin/check C13 --selftest)
SPECIFICATION Spec
VIEW view
CONSTANTS
  Ids = {1, 2}
  NonEntries = {"readme", "rootent", "fuzzent", "subplain", "subtmp", "subdash", "otherdir"}
  Ambiguous = {"subdash"}
  InSubdir = {"subplain", "subtmp", "subdash"}
  Bug = "FutureAlwaysSkip"
  AgeSet = {0, 110, 7190, 7210, 8700}
  FutureAges = {}
  NEAgeSet = {43200}
  NEAll = TRUE
  TTPast = {0, 1450, 2000}
  TTFuture = {50, 43200}
  TTCorrupt = 1
  AdvSet = {1450, 7190}
  MaxLook = 1
  MaxAdv = 1
  MaxTrim = 2
  WithStore = TRUE
  Sample = 0
  TTSample = 1
  Emit = FALSE
INVARIANTS LawDueRuns
CHECK_DEADLOCK FALSE
