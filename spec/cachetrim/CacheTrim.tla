------------------------------ MODULE CacheTrim ------------------------------
(***************************************************************************)
(* Cache retention (property C13): what Cache.Trim of                   *)
(* github.com/rogpeppe/go-internal/cache may remove, must remove and must   *)
(* leave alone, as a function of the directory population, of the          *)
(* last-trim record trim.txt, and of the history of stores and lookups.    *)
(*                                                                         *)
(* Time is in MINUTES and relative: every file carries its AGE with        *)
(* respect to "now"; Advance(dt) lets dt minutes pass (all ages grow).     *)
(* Stores, lookups and Trim happen at "now".                               *)
(*                                                                         *)
(* Two layers live in the same state:                                      *)
(*  - physical (what the directory holds, what the code can see):          *)
(*      present, mt (age of the file's mtime), tt (contents of trim.txt)   *)
(*  - history ghosts (what the statement speaks about):                    *)
(*      lo, hi  bounds on the age of the true last use of a file           *)
(*              (a file found in a population with mtime age M was last    *)
(*              used between M-59 and M minutes ago: a use less than an    *)
(*              hour after the mtime was written does not refresh it),     *)
(*      lk      how it was last used (population / get / put ...),         *)
(*      last    what the most recent Trim did, for the laws below.         *)
(* Trim only sees the physical layer; the laws (sentences of the property  *)
(* statement) are phrased on the ghosts.  TLC checks that the physical     *)
(* rule (mtime older than 5d+1h, only *-a / *-d names in the 256           *)
(* subdirectories, skip window -1h < now-t < 24h) implies the laws in      *)
(* every reachable state; the Bug switch seeds deviations for which TLC    *)
(* must find a violation (Bug_*.cfg).                                      *)
(***************************************************************************)
EXTENDS Integers, Sequences, FiniteSets, TLC

CONSTANTS
  Ids,          \* action ids (naturals).  OutOf(i) is the output id i maps to
  NonEntries,   \* names (strings) of the files that are not cache entries
  Ambiguous,    \* subset of NonEntries: foreign files in a cache subdirectory whose
                \* name happens to end in -a / -d.  The statement calls foreign files
                \* untouchable, the code (and the anchor "only *-a / *-d names are
                \* candidates") treats the suffix as the definition of an entry: not judged.
  InSubdir,     \* subset of NonEntries living inside one of the 256 cache subdirectories
  Bug           \* "none" or the name of a seeded deviation

MtimeInterval == 60          \* mtime refreshed at most hourly
TrimInterval  == 1440        \* at most one trim per day
TrimLimit     == 7200        \* five days
FarFuture     == 1440        \* a last-trim time more than a day ahead is "too far in the future" for every reader
Margin        == 10          \* generated cases stay this far from every boundary (real clock runs on)
ABSENT        == 999999999   \* age standing for "file does not exist" in population descriptions

\* ids 1 and 2 share output 1 (two actions with the same result); id i >= 3 has output i-1
OutOf(i) == IF i <= 2 THEN 1 ELSE i - 1
Outs     == {OutOf(i) : i \in Ids}
AFile(i) == "a" \o ToString(i)          \* the index entry  <hex id>-a
DFile(o) == "d" \o ToString(o)          \* the output file  <hex out>-d
IndexFiles  == {AFile(i) : i \in Ids}
OutputFiles == {DFile(o) : o \in Outs}
EntryFiles  == IndexFiles \cup OutputFiles
Files       == EntryFiles \cup NonEntries

VARIABLES present, mt, lo, hi, lk, tt, last
cvars == <<present, mt, lo, hi, lk, tt, last>>

NoTrim == [valid |-> FALSE, regime |-> "none", ran |-> FALSE, removed |-> {}, before |-> {},
           lo |-> [f \in Files |-> 0], hi |-> [f \in Files |-> 0], ttBefore |-> [k |-> "missing", v |-> 0]]

\* ------------------------------------------------------------------ uses
RefreshAfter == IF Bug = "RefreshEvery2h" THEN 120 ELSE MtimeInterval

\* Age of the last use of f right after a use now.  A timestamp in the future (clock skew) is
\* all the evidence there is about such a file: it counts as a use at that time.
UsedNow(f) == IF mt[f] < 0 THEN mt[f] ELSE 0

\* Cache.used on every file of F that exists: mtime := now unless it is younger than an hour.
\* History: those files were used now.
UseFiles(F, kind) ==
  LET P == F \cap present IN
  /\ mt' = [f \in Files |-> IF f \in P /\ mt[f] >= RefreshAfter THEN 0 ELSE mt[f]]
  /\ lo' = [f \in Files |-> IF f \in P THEN UsedNow(f) ELSE lo[f]]
  /\ hi' = [f \in Files |-> IF f \in P THEN UsedNow(f) ELSE hi[f]]
  /\ lk' = [f \in Files |-> IF f \in P THEN kind ELSE lk[f]]

\* a lookup is only generated when no involved mtime is within Margin of the refresh boundary
SafeUse(F) == \A f \in F \cap present : mt[f] <= MtimeInterval - Margin \/ mt[f] >= MtimeInterval + Margin

LookupKinds == {"get", "getfile", "getbytes"}
Touched(kind, i) == IF AFile(i) \notin present THEN {}                        \* miss: nothing is used
                    ELSE IF kind = "get" THEN {AFile(i)}                      \* Get uses the index entry only
                    ELSE {AFile(i), DFile(OutOf(i))}                          \* GetFile / GetBytes go through OutputFile
Hit(kind, i) == AFile(i) \in present /\ (kind = "get" \/ DFile(OutOf(i)) \in present)

Lookup(kind, i) ==
  /\ SafeUse(Touched(kind, i))
  /\ UseFiles(Touched(kind, i), kind)
  /\ UNCHANGED <<present, tt>>
  /\ last' = NoTrim

OutputFile(o) ==
  /\ SafeUse({DFile(o)})
  /\ UseFiles({DFile(o)}, "outputfile")
  /\ UNCHANGED <<present, tt>>
  /\ last' = NoTrim

\* Put(id i, content with output id OutOf(i)): the index entry is (re)written now; the output
\* file is created now, or -- if it already holds this content -- it has just been stored
\* again, which the statement counts as a use like any other ("stored ... within the last
\* five days").  Bug "StoreNoRefresh" leaves the mtime of an existing output alone.
Store(i) ==
  LET a == AFile(i)
      d == DFile(OutOf(i))
      had == d \in present IN
  /\ SafeUse({d})
  /\ present' = present \cup {a, d}
  /\ mt' = [f \in Files |-> IF f = a THEN 0
                            ELSE IF f = d THEN (IF ~had THEN 0
                                                ELSE IF Bug = "StoreNoRefresh" THEN mt[d]
                                                ELSE IF mt[d] >= RefreshAfter THEN 0 ELSE mt[d])
                            ELSE mt[f]]
  /\ lo' = [f \in Files |-> IF f = a \/ (f = d /\ ~had) THEN 0 ELSE IF f = d THEN UsedNow(d) ELSE lo[f]]
  /\ hi' = [f \in Files |-> IF f = a \/ (f = d /\ ~had) THEN 0 ELSE IF f = d THEN UsedNow(d) ELSE hi[f]]
  /\ lk' = [f \in Files |-> IF f = a THEN "put" ELSE IF f = d THEN (IF had THEN "put-existing" ELSE "put-new") ELSE lk[f]]
  /\ UNCHANGED tt
  /\ last' = NoTrim

Advance(dt) ==
  /\ mt' = [f \in Files |-> IF f \in present THEN mt[f] + dt ELSE mt[f]]
  /\ lo' = [f \in Files |-> IF f \in present THEN lo[f] + dt ELSE lo[f]]
  /\ hi' = [f \in Files |-> IF f \in present THEN hi[f] + dt ELSE hi[f]]
  /\ tt' = IF tt.k = "time" THEN [tt EXCEPT !.v = @ + dt] ELSE tt
  /\ UNCHANGED <<present, lk>>
  /\ last' = NoTrim

\* ------------------------------------------------------------------ Trim, physical rule
SkipBelow  == IF Bug = "SkipWindow2d" THEN 2 * TrimInterval ELSE TrimInterval
FutureTol  == IF Bug = "FutureAlwaysSkip" THEN 100000000 ELSE MtimeInterval
Cutoff     == TrimLimit + (IF Bug = "CutoffNoGranularity" THEN 0 ELSE MtimeInterval)

Skips      == tt.k = "time" /\ tt.v < SkipBelow /\ tt.v > -FutureTol
Candidates == IF Bug = "TrimAllNames" THEN present \cap (EntryFiles \cup InSubdir)
              ELSE present \cap (EntryFiles \cup Ambiguous)
Stale(f)   == mt[f] > Cutoff
Removed    == IF Skips THEN {} ELSE {f \in Candidates : Stale(f)}

\* no mtime within Margin of the cutoff, last-trim time not within Margin of either end of the window
SafeTrim ==
  /\ \A f \in present : mt[f] <= TrimLimit + MtimeInterval - Margin \/ mt[f] >= TrimLimit + MtimeInterval + Margin
  /\ tt.k = "time" => /\ (tt.v <= TrimInterval - Margin \/ tt.v >= TrimInterval + Margin)
                      /\ (tt.v <= -MtimeInterval - Margin \/ tt.v >= -MtimeInterval + Margin)
                      /\ (tt.v <= -FarFuture - Margin \/ tt.v >= -FarFuture + Margin)

\* ------------------------------------------------------------------ Trim, what the statement fixes
\* "skip": a trim completed less than a day ago -> nothing at all may happen.
\* "run" : no usable record, or the recorded trim is a day or more old, or absurdly far in the
\*         future -> the trim is due.  "free": a slightly future record; the code tolerates up to
\*         an hour of skew, the statement does not say -> outcome not judged, only consistency.
Regime == CASE tt.k # "time"       -> "run"
          []   tt.v >= TrimInterval -> "run"
          []   tt.v >= 0            -> "skip"
          []   tt.v <= -FarFuture   -> "run"
          []   OTHER                -> "free"

\* per file, if the trim runs: "keep" it must survive, "remove" it must go, "free" not fixed
Cls(f) == IF f \in Ambiguous THEN "free"
          ELSE IF f \notin EntryFiles THEN "keep"
          ELSE IF lo[f] < TrimLimit THEN "keep"
          ELSE IF hi[f] > TrimLimit + MtimeInterval THEN "remove"
          ELSE "free"

Trim ==
  /\ SafeTrim
  /\ present' = present \ Removed
  /\ tt' = IF Skips \/ Bug = "NoRecord" THEN tt ELSE [k |-> "time", v |-> 0]
  /\ last' = [valid |-> TRUE, regime |-> Regime, ran |-> ~Skips, removed |-> Removed, before |-> present,
              lo |-> lo, hi |-> hi, ttBefore |-> tt]
  /\ UNCHANGED <<mt, lo, hi, lk>>

\* ------------------------------------------------------------------ the laws (INVARIANTS)
\* (1) Trim never removes an entry that was stored or looked up within the last five days
LawRecentKept == last.valid => \A f \in last.removed : last.lo[f] >= TrimLimit
\* (2) Trim never touches files that are not cache entries
LawOnlyEntries == last.valid => last.removed \subseteq (EntryFiles \cup Ambiguous)
\* (3) nothing at all if a trim completed less than a day ago
LawSkipNothing == (last.valid /\ last.regime = "skip") => (~last.ran /\ last.removed = {} /\ tt = last.ttBefore)
\* (4) when it runs it removes every entry unused for longer than five days plus one hour, and records the time
LawStaleRemoved == (last.valid /\ last.ran) =>
                      /\ \A f \in last.before \cap EntryFiles : last.hi[f] > TrimLimit + MtimeInterval => f \in last.removed
                      /\ tt = [k |-> "time", v |-> 0]
\* (4') a trim that is due does run
LawDueRuns == (last.valid /\ last.regime = "run") => last.ran
\* (5) looking an entry up refreshes it so that it survives the next trim: what makes (1) inductive --
\*     the mtime never claims a later use than the true one and lags it by less than an hour
LawRefresh == \A f \in present \cap EntryFiles : lo[f] <= hi[f] /\ hi[f] <= mt[f] /\ mt[f] - lo[f] < MtimeInterval

TypeOK == /\ present \subseteq Files
          /\ tt.k \in {"missing", "corrupt", "time"}
=============================================================================
