\* reference configuration (the check generates its tier configurations from checks/c13.py with the same shape)
SPECIFICATION Spec
VIEW view
CONSTANTS
  Ids = {1}
  NonEntries = {"readme", "rootent", "fuzzent", "subplain", "subtmp", "subdash", "otherdir"}
  Ambiguous = {"subdash"}
  InSubdir = {"subplain", "subtmp", "subdash"}
  Bug = "none"
  AgeSet = {0, 70, 7190, 7250, 7270, 43200}
  FutureAges = {}
  NEAgeSet = {43200}
  NEAll = TRUE
  TTPast = {0, 1430, 1450, 43200}
  TTFuture = {50, 70, 43200}
  TTCorrupt = 2
  AdvSet = {1430, 1450}
  MaxLook = 1
  MaxAdv = 1
  MaxTrim = 2
  WithStore = TRUE
  Sample = 0
  TTSample = 1
  Emit = FALSE
INVARIANTS TypeOK LawRecentKept LawOnlyEntries LawSkipNothing LawStaleRemoved LawDueRuns LawRefresh
CHECK_DEADLOCK FALSE
