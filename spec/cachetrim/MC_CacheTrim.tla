---------------------------- MODULE MC_CacheTrim ----------------------------
(***************************************************************************)
(* Bounded instance of CacheTrim and case generator (binding A).           *)
(*                                                                         *)
(* Initial states: directory populations -- every entry file absent or     *)
(* present with an age from AgeSet, the non-entry files, and a trim.txt    *)
(* from the class set (missing, corrupt variants, times relative to now).  *)
(* Sample = 0 enumerates the whole product; Sample = K > 0 takes K         *)
(* pseudo-random populations (TLC -seed) of a larger file universe.        *)
(* Transitions: lookups, OutputFile, Put, Advance(dt), Trim, bounded by    *)
(* MaxLook / MaxAdv / MaxTrim.  TLC checks the laws of CacheTrim in every   *)
(* state; every Trim transition emits one case: the initial population,    *)
(* the history up to and including this Trim, the model state just before  *)
(* it and what the statement fixes about its outcome.  The Go driver       *)
(* replays the case into the real cache package.                           *)
(***************************************************************************)
EXTENDS CacheTrim, Json, Randomization

CONSTANTS
  AgeSet,       \* ages (minutes, >= 0) an entry file may have in a population
  FutureAges,   \* how far in the future (minutes, > 0) an mtime may lie; {} for none
  NEAgeSet,     \* ages of the non-entry files (all of one population share one)
  NEAll,        \* TRUE: every non-entry file is there; FALSE: every subset of them
  TTPast,       \* last-trim times, minutes ago (>= 0)
  TTFuture,     \* last-trim times, minutes ahead (> 0)
  TTCorrupt,    \* number of corrupt-record variants (the driver knows what bytes variant c is)
  AdvSet,       \* possible Advance steps
  MaxLook, MaxAdv, MaxTrim,
  WithStore,    \* Put is part of the histories
  Sample,       \* 0 = exhaustive product of populations, K = that many random ones
  TTSample,     \* with Sample > 0: trim.txt classes drawn per population
  Emit

VARIABLES hist, init, nL, nA, nT
vars == <<present, mt, lo, hi, lk, tt, last, hist, init, nL, nA, nT>>
view == <<present, mt, lo, hi, lk, tt, last, init, nL, nA, nT>>   \* commuting lookups collapse

Ages == AgeSet \cup {0 - a : a \in FutureAges}
TTSet == {[k |-> "missing", v |-> 0]}
         \cup {[k |-> "corrupt", v |-> c] : c \in 1..TTCorrupt}
         \cup {[k |-> "time", v |-> t] : t \in TTPast}
         \cup {[k |-> "time", v |-> 0 - t] : t \in TTFuture}

EntryPops == [EntryFiles -> Ages \cup {ABSENT}]
NESubsets == IF NEAll THEN {NonEntries} ELSE SUBSET NonEntries
NEPops    == {[f \in NonEntries |-> IF f \in S THEN a ELSE ABSENT] : S \in NESubsets, a \in NEAgeSet}
\* Sample = 0: the whole product.  Sample = K: K pseudo-random entry populations (TLC -seed), each
\* combined with one pseudo-random non-entry population and TTSample pseudo-random trim.txt classes
\* (the RandomSubset calls sit inside the quantifier so that they are drawn afresh per population).
PopAge(p, f) == IF f \in EntryFiles THEN p[1][f] ELSE p[2][f]

Init ==
  \E e \in (IF Sample = 0 THEN EntryPops ELSE RandomSubset(Sample, EntryPops)) :
  \E n \in (IF Sample = 0 THEN NEPops ELSE RandomSubset(1, NEPops)) :
  \E t \in (IF Sample = 0 THEN TTSet ELSE RandomSubset(TTSample, TTSet)) :
  LET p == <<e, n, t>> IN
    /\ init = [e |-> p[1], n |-> p[2], tt |-> p[3]]
    /\ present = {f \in Files : PopAge(p, f) # ABSENT}
    /\ mt = [f \in Files |-> IF PopAge(p, f) = ABSENT THEN 0 ELSE PopAge(p, f)]
    \* a file found with mtime age M was last used between M-59 and M minutes ago (not in the future)
    /\ lo = [f \in Files |-> LET m == PopAge(p, f) IN
                             IF m = ABSENT THEN 0 ELSE IF m < 0 THEN m ELSE IF m >= 59 THEN m - 59 ELSE 0]
    /\ hi = [f \in Files |-> IF PopAge(p, f) = ABSENT THEN 0 ELSE PopAge(p, f)]
    /\ lk = [f \in Files |-> IF PopAge(p, f) = ABSENT THEN "absent" ELSE "population"]
    /\ tt = p[3]
    /\ last = NoTrim
    /\ hist = <<>>
    /\ nL = 0 /\ nA = 0 /\ nT = 0

Step(act, arg, hit) == [act |-> act, arg |-> arg, hit |-> hit]

Case == [init   |-> init,
         steps  |-> Append(hist, Step("trim", 0, FALSE)),
         pre    |-> [present |-> present, tt |-> tt,
                     mt |-> [f \in Files |-> IF f \in present THEN mt[f] ELSE ABSENT]],
         expect |-> [regime |-> Regime,
                     ran    |-> ~Skips,
                     cls    |-> [f \in Files |-> IF f \in present THEN Cls(f) ELSE "absent"],
                     model  |-> [f \in Files |-> IF f \notin present THEN "absent"
                                                 ELSE IF f \in Removed THEN "remove" ELSE "keep"],
                     lk     |-> lk, lo |-> lo, hi |-> hi]]

EmitCase == IF Emit THEN PrintT(<<"EMIT", ToJson(Case)>>) ELSE TRUE

Active == nT < MaxTrim        \* a history ends with its last Trim

Next ==
  /\ Active
  /\ \/ /\ nL < MaxLook
        /\ \E k \in LookupKinds, i \in Ids :
              /\ Lookup(k, i)
              /\ hist' = Append(hist, Step(k, i, Hit(k, i)))
        /\ nL' = nL + 1 /\ UNCHANGED <<init, nA, nT>>
     \/ /\ nL < MaxLook
        /\ \E o \in Outs :
              /\ OutputFile(o)
              /\ hist' = Append(hist, Step("outputfile", o, DFile(o) \in present))
        /\ nL' = nL + 1 /\ UNCHANGED <<init, nA, nT>>
     \/ /\ WithStore /\ nL < MaxLook
        /\ \E i \in Ids :
              /\ Store(i)
              /\ hist' = Append(hist, Step("put", i, DFile(OutOf(i)) \in present))
        /\ nL' = nL + 1 /\ UNCHANGED <<init, nA, nT>>
     \/ /\ nA < MaxAdv
        /\ \E dt \in AdvSet :
              /\ Advance(dt)
              /\ hist' = Append(hist, Step("advance", dt, FALSE))
        /\ nA' = nA + 1 /\ UNCHANGED <<init, nL, nT>>
     \/ /\ SafeTrim
        /\ EmitCase
        /\ Trim
        /\ hist' = Append(hist, Step("trim", 0, ~Skips))
        /\ nT' = nT + 1 /\ UNCHANGED <<init, nL, nA>>

Spec == Init /\ [][Next]_vars
=============================================================================
