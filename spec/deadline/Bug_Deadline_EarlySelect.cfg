SPECIFICATION Spec
CONSTANTS
  GMinT = 4
  J = 1
  Bug = "EarlySelect"
  Emit = FALSE
  Scenarios <- MCScenarios
  Ds = {12, 20, 32, 80, 120}
  XStep = 4
  Near = 4
  Fgs = {TRUE}
CONSTRAINT TimeBound
INVARIANTS TypeOK NoStuck IntIffCtxBeforeWait KillOnlyAfterGrace NoEscalationInBg Attribution BoundedReturn EarlyOwnStatus NoChildLeft SatisfiesL1 NotHung
CHECK_DEADLOCK TRUE
