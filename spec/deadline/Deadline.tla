------------------------------ MODULE Deadline ------------------------------
(***************************************************************************)
(* L2 (implementation-shaped) model of how testscript stops a command when *)
(* Params.Deadline is set (property C17):                                  *)
(*                                                                         *)
(*   RunT:        g = max(100ms, timeout/20); ctx expires at D - 2g        *)
(*   ts.exec:     cmd.Start(); waitOrStop(ctx, cmd, g)                     *)
(*   waitOrStop:  errc := make(chan error)         (unbuffered)            *)
(*     watcher:   select { errc <- nil -> return ; <-ctx.Done() }          *)
(*                err := Signal(interrupt)                                 *)
(*                  nil            -> err = ctx.Err()                      *)
(*                  ErrProcessDone -> errc <- nil ; return                 *)
(*                if killDelay > 0 { select { errc <- ctx.Err() -> return  *)
(*                                          ; <-timer(killDelay) }         *)
(*                                   Kill() }                              *)
(*                errc <- err                                              *)
(*     main:      waitErr := cmd.Wait(); if e := <-errc; e != nil          *)
(*                { return e }; return waitErr                             *)
(*   cmdExec:     err != nil: ctx.Err() != nil -> "test timed out ..."     *)
(*                            else !neg -> "unexpected command failure"    *)
(*                err == nil && neg -> "unexpected command success"        *)
(*                                                                         *)
(* Actors: main, watcher, child, the context timer.  Time is a discrete    *)
(* clock `now` (ticks).  Steps of main and watcher take no time but        *)
(* interleave in every order with each other and with the timed events of  *)
(* the same instant (maximal progress: the clock does not advance while a  *)
(* step is enabled).  Timed events - the context expiring, the kill timer, *)
(* the child leaving on its own, dying of the interrupt, dying of the      *)
(* kill - happen at any instant in [due, due + J].  Hence every order of   *)
(* "context expires", "child exits", "Wait returns", "watcher looks at the *)
(* channel / the context / the timer" is explored, for every exit time.    *)
(*                                                                         *)
(* Deliberate abstractions: Signal on a process that has exited but is not *)
(* yet reaped may succeed or report ErrProcessDone (both are explored, the *)
(* os package decides); output pipes are not modelled; one command.        *)
(* fg = FALSE is the background variant (killDelay = -1, `exec ... &`):    *)
(* no escalation, so an ignoring child is never stopped - stated by        *)
(* NoEscalationInBg, and BoundedReturn is asserted for fg only.            *)
(*                                                                         *)
(* Bug (sanity switches, each must make TLC find a violation):             *)
(*   "OneGrace"     context expires one grace period before the deadline   *)
(*   "NoKill"       the watcher never escalates to Kill                    *)
(*   "KillAtOnce"   kill timer of 0 instead of the grace period            *)
(*   "NoNilOnDone"  watcher returns without sending after ErrProcessDone   *)
(*   "WaitErrFirst" main prefers Wait's error over the watcher's           *)
(*   "EarlySelect"  watcher signals without waiting for the context        *)
(***************************************************************************)
EXTENDS Integers, TLC, Json

CONSTANTS
  GMinT,      \* 100 ms in ticks
  J,          \* timed events happen within J ticks of their due time
  Bug,
  Emit,       \* emit one record per finished run (scenario + outcome)
  Scenarios   \* set of [D, x, onint, ok, neg, fg]

Never == -1

L1 == INSTANCE DeadlineL1 WITH G100 <- GMinT, M <- 1, Delta <- 0

VARIABLES
  sc,            \* the scenario (fixed by Init)
  now,           \* the clock
  ctxDone, ctxAt,
  mpc,           \* main:    "wait" -> "recv" -> "ret" -> "done"
  wpc,           \* watcher: "select1" -> "signal" -> ("select2" -> "kill")? -> "send" | "sendnil" -> "exit"
  child,         \* "run" | "zombie" | "reaped"
  cause,         \* "none" | "self" | "quit" | "kill"
  intOK,         \* Signal(interrupt) returned nil
  intDelivered,  \* ... and the child was still running, so it saw the signal
  intAt, timerAt,
  killDelivered, killAt,
  exitAt, waitErr, waitAt,
  result,        \* what waitOrStop returned: "nil" | "ctx" | "exit1" | "exit2" | "killed"
  verdict, msg, doneAt

vars == <<sc, now, ctxDone, ctxAt, mpc, wpc, child, cause, intOK, intDelivered, intAt, timerAt,
          killDelivered, killAt, exitAt, waitErr, waitAt, result, verdict, msg, doneAt>>

g  == L1!Grace(sc.D)
Tc == IF Bug = "OneGrace" THEN L1!Max(0, sc.D - g) ELSE L1!IntTime(sc.D)

Init ==
  /\ sc \in Scenarios
  /\ now = 0 /\ ctxDone = FALSE /\ ctxAt = Never
  /\ mpc = "wait" /\ wpc = "select1" /\ child = "run" /\ cause = "none"
  /\ intOK = FALSE /\ intDelivered = FALSE /\ intAt = Never /\ timerAt = Never
  /\ killDelivered = FALSE /\ killAt = Never
  /\ exitAt = Never /\ waitErr = "nil" /\ waitAt = Never
  /\ result = "nil" /\ verdict = "none" /\ msg = "none" /\ doneAt = Never

\* ---------------------------------------------------------------- context
EnCtxFire == ~ctxDone /\ now >= Tc
CtxFire == /\ EnCtxFire /\ ctxDone' = TRUE /\ ctxAt' = now
           /\ UNCHANGED <<sc, now, mpc, wpc, child, cause, intOK, intDelivered, intAt, timerAt, killDelivered,
                          killAt, exitAt, waitErr, waitAt, result, verdict, msg, doneAt>>

\* ---------------------------------------------------------------- main receives from errc
Deliver(v) ==
  /\ mpc' = "ret"
  /\ result' = IF Bug = "WaitErrFirst"
               THEN (IF waitErr # "nil" THEN waitErr ELSE v)
               ELSE (IF v # "nil" THEN v ELSE waitErr)

\* ---------------------------------------------------------------- watcher
EnSel1Send == wpc = "select1" /\ mpc = "recv"
Sel1Send == /\ EnSel1Send /\ wpc' = "exit" /\ Deliver("nil")
            /\ UNCHANGED <<sc, now, ctxDone, ctxAt, child, cause, intOK, intDelivered, intAt, timerAt, killDelivered,
                           killAt, exitAt, waitErr, waitAt, verdict, msg, doneAt>>

EnSel1Ctx == wpc = "select1" /\ (ctxDone \/ Bug = "EarlySelect")
Sel1Ctx == /\ EnSel1Ctx /\ wpc' = "signal"
           /\ UNCHANGED <<sc, now, ctxDone, ctxAt, mpc, child, cause, intOK, intDelivered, intAt, timerAt, killDelivered,
                          killAt, exitAt, waitErr, waitAt, result, verdict, msg, doneAt>>

SignalResults == CASE child = "run"    -> {"ok"}
                   [] child = "zombie" -> {"ok", "done"}
                   [] child = "reaped" -> {"done"}
EnSignal == wpc = "signal"
Signal ==
  /\ EnSignal
  /\ \E r \in SignalResults :
       IF r = "ok"
       THEN /\ intOK' = TRUE /\ intAt' = now /\ intDelivered' = (child = "run")
            /\ IF sc.fg /\ Bug # "NoKill"
               THEN wpc' = "select2" /\ timerAt' = now + (IF Bug = "KillAtOnce" THEN 0 ELSE g)
               ELSE wpc' = "send" /\ timerAt' = timerAt
       ELSE /\ wpc' = (IF Bug = "NoNilOnDone" THEN "exit" ELSE "sendnil")
            /\ UNCHANGED <<intOK, intAt, intDelivered, timerAt>>
  /\ UNCHANGED <<sc, now, ctxDone, ctxAt, mpc, child, cause, killDelivered, killAt, exitAt, waitErr, waitAt,
                 result, verdict, msg, doneAt>>

EnSel2Send == wpc = "select2" /\ mpc = "recv"
Sel2Send == /\ EnSel2Send /\ wpc' = "exit" /\ Deliver("ctx")
            /\ UNCHANGED <<sc, now, ctxDone, ctxAt, child, cause, intOK, intDelivered, intAt, timerAt, killDelivered,
                           killAt, exitAt, waitErr, waitAt, verdict, msg, doneAt>>

EnSel2Timer == wpc = "select2" /\ now >= timerAt         \* timed: within [timerAt, timerAt + J]
Sel2Timer == /\ EnSel2Timer /\ wpc' = "kill"
             /\ UNCHANGED <<sc, now, ctxDone, ctxAt, mpc, child, cause, intOK, intDelivered, intAt, timerAt, killDelivered,
                            killAt, exitAt, waitErr, waitAt, result, verdict, msg, doneAt>>

EnKill == wpc = "kill"
Kill == /\ EnKill /\ wpc' = "send"
        /\ IF child = "run" THEN killDelivered' = TRUE /\ killAt' = now
                            ELSE UNCHANGED <<killDelivered, killAt>>      \* Kill on a finished process: no effect
        /\ UNCHANGED <<sc, now, ctxDone, ctxAt, mpc, child, cause, intOK, intDelivered, intAt, timerAt,
                       exitAt, waitErr, waitAt, result, verdict, msg, doneAt>>

EnSend == wpc = "send" /\ mpc = "recv"
Send == /\ EnSend /\ wpc' = "exit" /\ Deliver("ctx")
        /\ UNCHANGED <<sc, now, ctxDone, ctxAt, child, cause, intOK, intDelivered, intAt, timerAt, killDelivered,
                       killAt, exitAt, waitErr, waitAt, verdict, msg, doneAt>>

EnSendNil == wpc = "sendnil" /\ mpc = "recv"
SendNil == /\ EnSendNil /\ wpc' = "exit" /\ Deliver("nil")
           /\ UNCHANGED <<sc, now, ctxDone, ctxAt, child, cause, intOK, intDelivered, intAt, timerAt, killDelivered,
                          killAt, exitAt, waitErr, waitAt, verdict, msg, doneAt>>

\* ---------------------------------------------------------------- child (timed)
EnExit(c) == /\ child = "run"
             /\ CASE c = "self" -> sc.x # Never /\ now >= sc.x
                  [] c = "quit" -> intDelivered /\ sc.onint = "die"
                  [] c = "kill" -> killDelivered
ChildExit(c) == /\ EnExit(c) /\ child' = "zombie" /\ cause' = c /\ exitAt' = now
                /\ UNCHANGED <<sc, now, ctxDone, ctxAt, mpc, wpc, intOK, intDelivered, intAt, timerAt, killDelivered,
                               killAt, waitErr, waitAt, result, verdict, msg, doneAt>>

\* ---------------------------------------------------------------- main
EnWaitReturn == mpc = "wait" /\ child = "zombie"
WaitReturn == /\ EnWaitReturn /\ child' = "reaped" /\ mpc' = "recv" /\ waitAt' = now
              /\ waitErr' = CASE cause = "self" -> (IF sc.ok THEN "nil" ELSE "exit1")
                              [] cause = "quit" -> "exit2"
                              [] cause = "kill" -> "killed"
              /\ UNCHANGED <<sc, now, ctxDone, ctxAt, wpc, cause, intOK, intDelivered, intAt, timerAt, killDelivered,
                             killAt, exitAt, result, verdict, msg, doneAt>>

Outcome(v, m) == [D |-> sc.D, x |-> sc.x, onint |-> sc.onint, ok |-> sc.ok, neg |-> sc.neg, fg |-> sc.fg,
                  sig |-> intDelivered, killed |-> (cause = "kill"), verdict |-> v, msg |-> m]

EnReport == mpc = "ret"
Report ==
  /\ EnReport /\ mpc' = "done" /\ doneAt' = now
  /\ LET vm == IF result = "nil"
               THEN (IF sc.neg THEN <<"fail", "cmdsuccess">> ELSE <<"pass", "none">>)
               ELSE (IF ctxDone THEN <<"fail", "timedout">>
                     ELSE IF ~sc.neg THEN <<"fail", "cmdfail">> ELSE <<"pass", "none">>)
     IN /\ verdict' = vm[1] /\ msg' = vm[2]
        /\ (Emit => PrintT(<<"EMIT", ToJson(Outcome(vm[1], vm[2]))>>))
  /\ UNCHANGED <<sc, now, ctxDone, ctxAt, wpc, child, cause, intOK, intDelivered, intAt, timerAt, killDelivered,
                 killAt, exitAt, waitErr, waitAt, result>>

\* ---------------------------------------------------------------- time
Finished == mpc = "done" /\ wpc = "exit"
Internal == \/ EnSel1Send \/ EnSel1Ctx \/ EnSignal \/ EnSel2Send \/ EnKill \/ EnSend \/ EnSendNil
            \/ EnWaitReturn \/ EnReport

Tick ==
  /\ ~Internal /\ ~Finished
  /\ ctxDone \/ now < Tc + J
  /\ wpc = "select2" => now < timerAt + J
  /\ child = "run" => /\ sc.x # Never => now < sc.x + J
                      /\ (intDelivered /\ sc.onint = "die") => now < intAt + J
                      /\ killDelivered => now < killAt + J
  /\ now' = now + 1
  /\ UNCHANGED <<sc, ctxDone, ctxAt, mpc, wpc, child, cause, intOK, intDelivered, intAt, timerAt, killDelivered,
                 killAt, exitAt, waitErr, waitAt, result, verdict, msg, doneAt>>

Done == Finished /\ UNCHANGED vars

Next == \/ CtxFire \/ Sel1Send \/ Sel1Ctx \/ Signal \/ Sel2Send \/ Sel2Timer \/ Kill \/ Send \/ SendNil
        \/ (\E c \in {"self", "quit", "kill"} : ChildExit(c))
        \/ WaitReturn \/ Report \/ Tick \/ Done

Spec == Init /\ [][Next]_vars

\* ================================================================ laws
TypeOK ==
  /\ sc.D \in Nat /\ sc.x \in Nat \cup {Never} /\ sc.onint \in {"die", "ignore"}
  /\ sc.ok \in BOOLEAN /\ sc.neg \in BOOLEAN /\ sc.fg \in BOOLEAN
  /\ now \in Nat /\ ctxDone \in BOOLEAN
  /\ mpc \in {"wait", "recv", "ret", "done"}
  /\ wpc \in {"select1", "signal", "select2", "kill", "send", "sendnil", "exit"}
  /\ child \in {"run", "zombie", "reaped"} /\ cause \in {"none", "self", "quit", "kill"}
  /\ intOK \in BOOLEAN /\ intDelivered \in BOOLEAN /\ killDelivered \in BOOLEAN
  /\ result \in {"nil", "ctx", "exit1", "exit2", "killed"}
  /\ verdict \in {"none", "pass", "fail"} /\ msg \in {"none", "timedout", "cmdfail", "cmdsuccess"}

\* no deadlock between main and watcher over the unbuffered channel, no goroutine left behind
NoStuck == /\ ~(mpc = "recv" /\ wpc = "exit")
           /\ (mpc \in {"ret", "done"} => wpc = "exit")

\* the interrupt is sent iff the context expired before Wait returned
IntIffCtxBeforeWait ==
  /\ intOK => /\ ctxDone /\ ctxAt <= intAt
              /\ (waitAt = Never \/ intAt <= waitAt)
  /\ (mpc # "wait" /\ ctxDone /\ ctxAt < waitAt) => intOK

\* Kill only after the grace period, only in the foreground variant, only while Wait has not returned
KillOnlyAfterGrace ==
  killDelivered => /\ intOK /\ sc.fg /\ killAt >= intAt + g
                   /\ (waitAt = Never \/ killAt <= waitAt)
NoEscalationInBg == ~sc.fg => ~killDelivered /\ wpc \notin {"select2", "kill"}

\* the returned error is the context error exactly when the interrupt was sent; that is a "timed out" verdict
Attribution ==
  mpc \in {"ret", "done"} => /\ (intOK <=> result = "ctx")
                             /\ (mpc = "done" /\ intOK => <<verdict, msg>> = L1!TimedOut)

\* main returns by D - g + 3J whatever the child does (foreground), by D - 2g + 2J if the child dies of the interrupt
BoundedReturn ==
  sc.fg => /\ (now > Tc + g + 3 * J => mpc = "done")
           /\ (sc.onint = "die" /\ now > Tc + 2 * J => mpc = "done")

\* a command that finishes before the context can expire returns its own status, unsignalled, at once
EarlyOwnStatus ==
  (mpc = "done" /\ sc.x # Never /\ sc.x + J < Tc) =>
      /\ ~intOK /\ ~killDelivered /\ cause = "self"
      /\ result = (IF sc.ok THEN "nil" ELSE "exit1")
      /\ doneAt <= sc.x + J

\* Wait has reaped the child before waitOrStop returns
NoChildLeft == mpc # "wait" => child = "reaped"

\* the observable projection of every finished foreground run satisfies the contract DeadlineL1 with slack 3J
Obs == [after |-> 0, start |-> 0, prevend |-> Never, gap |-> 0, D |-> sc.D, x |-> sc.x, onint |-> sc.onint, ok |-> sc.ok, neg |-> sc.neg,
        sig |-> IF intDelivered THEN intAt ELSE Never,
        selfexit |-> IF cause = "self" THEN exitAt ELSE Never,
        last |-> exitAt, done |-> doneAt, rundone |-> doneAt, hung |-> FALSE,
        verdict |-> verdict, msg |-> msg, alive |-> (child # "reaped"), s |-> 3 * J, srun |-> 3 * J, jit |-> 0]
SatisfiesL1 == (mpc = "done" /\ sc.fg) => L1!AllLaws(Obs)
\* ... and a run that is still going on after D + 3J would be a hung one
NotHung == sc.fg /\ now > sc.D + 3 * J => mpc = "done"
=============================================================================
