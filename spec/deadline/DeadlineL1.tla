----------------------------- MODULE DeadlineL1 -----------------------------
(***************************************************************************)
(* Contract of property C17 (testscript honours Params.Deadline) over the  *)
(* OBSERVABLE facts of one script whose single foreground `exec` runs a    *)
(* child program - nothing about goroutines, channels or contexts.         *)
(*                                                                         *)
(* One observation is a record (all times in one unit - ms for real runs,  *)
(* ticks for the Deadline.tla model - counted from the moment RunT was     *)
(* called with Deadline = that moment + D; -1 = "did not happen"):         *)
(*   D        distance of the deadline                                     *)
(*   x        when the child program leaves on its own (-1: never)         *)
(*   onint    "die" | "ignore"   what the child does with the interrupt    *)
(*   ok       the child's own exit status is success                       *)
(*   neg      the script line is `! exec ...`                              *)
(*   sig      when the child received the interrupt                        *)
(*   selfexit when the child left on its own (it got that far)             *)
(*   last     last moment the child is known to have been alive            *)
(*   after    > 0: the script ran behind another one that ended then;      *)
(*   start    first sign of life of the child                              *)
(*   done     when the script's subtest finished; rundone: RunT + all      *)
(*            subtests finished; hung: they did not finish at all          *)
(*   verdict  "pass" | "fail" | "skip";  msg  "none" | "timedout" |        *)
(*            "cmdfail" | "cmdsuccess" | "other"  (failure message class)  *)
(*   alive    the child process still exists after the run                 *)
(*   s        scheduling slack granted to this observation (srun: to the   *)
(*            whole run); jit: largest scheduling delay measured while it  *)
(*            was taken                                                    *)
(*                                                                         *)
(* The statement: a script blocked in a foreground command is interrupted  *)
(* two grace periods before the deadline, force-killed one grace period    *)
(* later if it ignores the interrupt, reported as failed with a timed-out  *)
(* message; everything finishes by the deadline (plus slack) and no child  *)
(* is left behind; scripts that finish earlier are unaffected.             *)
(* grace = max(100ms, 5% of the distance).                                 *)
(*                                                                         *)
(* H_* laws cannot be broken by a slow machine (load only delays things);  *)
(* S_* laws bound a delay by the slack and are load sensitive.             *)
(***************************************************************************)
EXTENDS Integers

CONSTANTS
  G100,     \* 100 ms in the unit of the observation
  M,        \* margin that separates "clearly before / after" from "about the moment the deadline fires"
  Delta     \* tolerance for events that look early (clock reading granularity)

Max(a, b) == IF a > b THEN a ELSE b

Grace(D) == Max(G100, D \div 20)           \* 5% of the distance, at least 100 ms
IntTime(D) == Max(0, D - 2 * Grace(D))     \* two grace periods before the deadline
KillTime(D) == IntTime(D) + Grace(D)       \* nominal, when the interrupt is on time

Never == -1

\* ---- which sentence of the statement applies to an observation ----
\* finished on its own clearly before the interrupt was due: "scripts that finish earlier"
Early(o) == o.selfexit # Never /\ o.selfexit + M <= IntTime(o.D)
\* could not have finished on its own before the latest moment the interrupt may arrive: "blocked"
Blocked(o) == o.x = Never \/ o.x >= IntTime(o.D) + o.s + M
\* everything else "exits at about the moment the deadline fires": either attribution is allowed
Boundary(o) == ~Early(o) /\ ~Blocked(o)

Natural(o) == IF o.ok # o.neg THEN <<"pass", "none">>
              ELSE IF o.ok THEN <<"fail", "cmdsuccess">> ELSE <<"fail", "cmdfail">>
TimedOut == <<"fail", "timedout">>
Reported(o) == <<o.verdict, o.msg>>

\* the child ignores the interrupt and would outlive the grace period: it has to be force-killed
MustBeKilled(o) == /\ Blocked(o) /\ o.onint = "ignore" /\ o.sig # Never
                   /\ (o.x = Never \/ o.x >= o.sig + Grace(o.D) + o.s + M)
\* the child was in fact force-killed: it ignores the interrupt, got it, never reached its own exit
WasKilled(o) == o.onint = "ignore" /\ o.sig # Never /\ o.selfexit = Never /\ ~o.hung

\* a script that only started when the interrupt was already due (it ran behind another script of the same RunT call):
\* its command is interrupted as soon as it is started - possibly before it can notice - and everything else counts
\* from its start (start = first sign of life of the child, -1 = none)
LateStarter(o) == o.after # 0 /\ o.start # Never /\ o.start >= IntTime(o.D)

\* ---- laws a slow machine cannot break (load only delays things) ----
HFinished(o)          == ~o.hung
\* never interrupted before two grace periods before the deadline
HNotEarlyInt(o)       == o.sig # Never => o.sig + Delta >= IntTime(o.D)
\* a blocked command that did not leave on its own was interrupted (it was not just killed, or left alone)
HInterruptedIfBlocked(o) == Blocked(o) /\ ~o.hung /\ o.selfexit = Never /\ ~LateStarter(o) => o.sig # Never
\* blocked: failed, with a timed-out message - also for `! exec`, also when the child then leaves during the grace period
HVerdictBlocked(o)    == Blocked(o) /\ ~o.hung /\ (o.selfexit = Never \/ o.sig # Never) => Reported(o) = TimedOut
\* finished earlier: never signalled, own verdict.  (Only a subtest that was itself still busy reporting when the
\* interrupt time came - slow machine - may already see the expired context and say "timed out".)
HVerdictEarly(o)      == Early(o) /\ ~o.hung =>
                            /\ o.sig = Never
                            /\ \/ Reported(o) = Natural(o)
                               \/ (o.done + Delta >= IntTime(o.D) /\ Reported(o) = TimedOut)
\* about the moment the deadline fires: either attribution, nothing else
HVerdictBoundary(o)   == Boundary(o) /\ ~o.hung => Reported(o) \in {Natural(o), TimedOut}
HNoChildLeft(o)       == ~o.alive
\* nothing is reported as timed out before the interrupt was due (whatever the child did, or whether it got as far as
\* starting at all): the deadline of the run is the only thing that times a script out
HNotEarlyTimeout(o)   == ~o.hung /\ o.msg = "timedout" => o.done + Delta >= IntTime(o.D)

\* ---- laws that bound a delay by the slack (load sensitive) ----
\* interrupted two grace periods before the deadline
SIntOnTime(o)         == Blocked(o) /\ ~o.hung /\ ~LateStarter(o) => o.sig # Never /\ o.sig <= IntTime(o.D) + o.s
\* force-killed one grace period later if it ignores the interrupt ...
SKillOnTime(o)        == MustBeKilled(o) /\ ~o.hung => o.selfexit = Never /\ o.last <= o.sig + Grace(o.D) + o.s
\* ... and not before (last = last sign of life; the child may have been starved for a few jit before the kill)
SKillNotBeforeGrace(o) == WasKilled(o) => o.last + Delta + 3 * o.jit >= o.sig + Grace(o.D)
\* a late starter that ignores the interrupt is force-killed one grace period after it started: not before (its first sign
\* of life comes a little after the start: StartLag), not much later
StartLag == 3 * Delta
SLateKillNotBeforeGrace(o) == LateStarter(o) /\ o.onint = "ignore" /\ o.x = Never /\ ~o.hung =>
                                 o.last + Delta + StartLag + 3 * o.jit >= o.start + Grace(o.D)
SLateKillOnTime(o)    == LateStarter(o) /\ o.onint = "ignore" /\ o.x = Never /\ ~o.hung =>
                            o.selfexit = Never /\ o.last <= o.start + Grace(o.D) + o.s
\* ... and the same from facts a slow machine cannot shift the wrong way: the command was started no earlier than what ran
\* in front of it was last alive (prevend), it is killed a grace period after it was started, and its last sign of life is
\* at most one silence (gap) before that
HLateKillNotBeforeGrace(o) == LateStarter(o) /\ o.onint = "ignore" /\ o.x = Never /\ ~o.hung /\ o.prevend # Never =>
                                 o.last + 3 * Delta + o.gap >= o.prevend + Grace(o.D)
\* RunT and all its subtests finish by the deadline
SDoneByDeadline(o)    == ~o.hung => o.done <= o.D + o.s /\ o.rundone <= o.D + o.srun
\* scripts that finish earlier are not held back
SEarlyUndelayed(o)    == Early(o) /\ ~o.hung => o.done <= o.selfexit + o.s

AllLaws(o) == /\ HFinished(o) /\ HNotEarlyInt(o) /\ HInterruptedIfBlocked(o) /\ HVerdictBlocked(o)
              /\ HVerdictEarly(o) /\ HVerdictBoundary(o) /\ HNoChildLeft(o) /\ HNotEarlyTimeout(o)
              /\ SIntOnTime(o) /\ SKillOnTime(o) /\ SKillNotBeforeGrace(o) /\ SDoneByDeadline(o) /\ SEarlyUndelayed(o)
              /\ SLateKillNotBeforeGrace(o) /\ SLateKillOnTime(o) /\ HLateKillNotBeforeGrace(o)
=============================================================================
