---------------------------- MODULE MC_Deadline ----------------------------
(***************************************************************************)
(* Bounded instance of Deadline.tla.  One tick = 25 ms: GMinT = 4 (100 ms),*)
(* J = 1.  Scenarios: every deadline distance in Ds (ticks) x every exit   *)
(* time of the child (all ticks near the interrupt / kill instants, every  *)
(* XStep-th tick elsewhere, and "never") x {dies of, ignores} the          *)
(* interrupt x own status x `!` x {foreground, background}.                *)
(***************************************************************************)
EXTENDS Deadline

CONSTANTS Ds, XStep, Fgs, Near

Ti(D) == L1!IntTime(D)
XSet(D) == {x \in 0..(D + 2) : \/ x % XStep = 0
                               \/ (x >= Ti(D) - Near /\ x <= Ti(D) + L1!Grace(D) + Near)} \cup {Never}
MCScenarios ==
  UNION {{[D |-> D, x |-> x, onint |-> oi, ok |-> ok, neg |-> ng, fg |-> fg] :
             x \in XSet(D), oi \in {"die", "ignore"}, ok \in BOOLEAN, ng \in BOOLEAN, fg \in Fgs} : D \in Ds}

MaxD == CHOOSE d \in Ds : \A e \in Ds : e <= d
TimeBound == now <= MaxD + 8
=============================================================================
