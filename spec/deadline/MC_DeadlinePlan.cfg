SPECIFICATION Spec
CONSTANTS
  G100 = 100
  M = 40
  Delta = 10
  SNom = 170
  Ds = {300, 500, 800, 1200, 2000, 3000, 5000}
  EarlyXs = {5, 30, 150, 400}
  BOffsDie = {880, 940, 975, 992, 1000, 1008, 1025, 1060, 1120, 1260}
  BOffsIgn = {992, 1008, 1050, 1230}
  BOffsKill = {955, 1045, 1230}
INVARIANTS LabelSound EveryClassEveryD GraceFormula
CHECK_DEADLOCK FALSE
