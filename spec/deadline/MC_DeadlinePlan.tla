-------------------------- MODULE MC_DeadlinePlan --------------------------
(***************************************************************************)
(* The real-time experiment plan for C17, derived from the contract's own  *)
(* formulas (Grace, IntTime, KillTime of DeadlineL1, in ms): for every     *)
(* deadline distance D in Ds                                               *)
(*   - commands that block forever (die of / ignore the interrupt, with    *)
(*     and without `!`),                                                   *)
(*   - commands that finish clearly earlier (own status ok / failing,      *)
(*     with and without `!`),                                              *)
(*   - commands leaving at IntTime(D) + o for the offsets o in OffsDie     *)
(*     (die of the interrupt) and OffsIgn (ignore it), and at              *)
(*     KillTime(D) + o for o in OffsKill (ignore it): the sweep across     *)
(*     "exits at about the moment the deadline fires" and across the kill, *)
(*   - scripts that start late (second script of a sequential RunT call).  *)
(* Each case carries the class the contract assigns to it under the        *)
(* nominal slack SNom; TLC checks that every D has every class and that a  *)
(* case labelled early / blocked keeps the margin M from the boundary.     *)
(* One EMIT line per case; harness/drivers/deadline runs them.             *)
(***************************************************************************)
EXTENDS DeadlineL1, TLC, Json, FiniteSets

CONSTANTS Ds, SNom, EarlyXs,
          BOffsDie, BOffsIgn, BOffsKill    \* offsets + Bias (a cfg file cannot hold negative numbers)
Bias == 1000
OffsDie == {b - Bias : b \in BOffsDie}
OffsIgn == {b - Bias : b \in BOffsIgn}
OffsKill == {b - Bias : b \in BOffsKill}

VARIABLE c

Lab(D, x) == IF x = Never THEN "blocked"
             ELSE IF x >= IntTime(D) + SNom + M THEN "late"        \* blocked, but leaves on its own later
             ELSE IF x + M <= IntTime(D) THEN "early" ELSE "boundary"
Mk2(D, x, oi, ok, ng, af) == [label |-> Lab(D, x), D |-> D, x |-> x, onint |-> oi, ok |-> ok, neg |-> ng, after |-> af]
Mk(D, x, oi, ok, ng) == Mk2(D, x, oi, ok, ng, 0)

Forever(D) == {Mk(D, Never, oi, TRUE, ng) : oi \in {"die", "ignore"}, ng \in BOOLEAN} \cup {Mk(D, Never, "die", FALSE, FALSE)}
Earlies(D) == {Mk(D, x, "die", ok, ng) : x \in {y \in EarlyXs : y + M + 20 <= IntTime(D)}, ok \in BOOLEAN, ng \in BOOLEAN}
SweepDie(D) == {Mk(D, IntTime(D) + o, "die", ok, FALSE) : o \in {p \in OffsDie : IntTime(D) + p >= 1}, ok \in BOOLEAN}
SweepIgn(D) == {Mk(D, IntTime(D) + o, "ignore", TRUE, FALSE) : o \in {p \in OffsIgn : IntTime(D) + p >= 1}}
SweepKill(D) == {Mk(D, KillTime(D) + o, "ignore", TRUE, ng) : o \in OffsKill, ng \in BOOLEAN}
\* scripts that start late: `after` > 0 = the script is the second one of a RunT call whose T runs subtests one after the
\* other (cmd/testscript's runner, any T whose Parallel is a no-op); the first script leaves on its own at `after`, a third
\* of the way to the interrupt.  All times still count from the RunT call: the deadline is RunT's, not the script's.
After(D) == IntTime(D) \div 3
Late(D) == {Mk2(D, Never, oi, TRUE, FALSE, After(D)) : oi \in {"die", "ignore"}}
             \cup {Mk2(D, x, "die", TRUE, FALSE, After(D)) : x \in {y \in {2 * After(D)} : y + M + 20 <= IntTime(D)}}
\* ... and a script that starts after the interrupt was due, half a grace period into the first of the two reserved ones
\* (the first script ignores the interrupt and leaves on its own then): a command that ignores the interrupt from its first
\* instruction is interrupted at once and force-killed one grace period after it started - still before the deadline.
\* Only for distances whose grace period is well above the scheduling slack (ign: the driver that runs these cases ignores
\* SIGQUIT itself, so that its children start out ignoring it).
LateIgnAfter(D) == IntTime(D) + Grace(D) \div 2
LateIgn(D) == IF Grace(D) >= 150 THEN {Mk2(D, Never, "ignore", TRUE, FALSE, LateIgnAfter(D)) @@ [ign |-> TRUE]} ELSE {}
\* the same late start inside one script: under ContinueOnError the script's first command is stopped when the interrupt is
\* due, and its second command (the case) starts then
CoeIgn(D) == IF Grace(D) >= 150 THEN {Mk2(D, Never, "ignore", TRUE, FALSE, IntTime(D)) @@ [ign |-> TRUE, coe |-> TRUE]} ELSE {}
\* a program run by a custom command through TestScript.Exec is under the deadline like one run by `exec`
Cust(D) == {Mk(D, Never, oi, TRUE, FALSE) @@ [custom |-> TRUE] : oi \in {"die", "ignore"}}
\* a background command that ignores the interrupt (SIGQUIT) but not what the end of the script sends it (SIGINT) runs
\* beside a blocked foreground command: the script ends by the deadline all the same and nothing is left behind
BgQuit(D) == {Mk(D, Never, "die", TRUE, FALSE) @@ [bg |-> TRUE]}
Cases(D) == Forever(D) \cup Earlies(D) \cup SweepDie(D) \cup SweepIgn(D) \cup SweepKill(D) \cup Late(D) \cup LateIgn(D)
            \cup CoeIgn(D) \cup Cust(D) \cup BgQuit(D)
AllCases == UNION {Cases(D) : D \in Ds}

Init == c \in AllCases /\ PrintT(<<"EMIT", ToJson(c)>>)
Next == UNCHANGED c
Spec == Init /\ [][Next]_c

\* the plan is what it claims to be
Nominal(k) == [D |-> k.D, x |-> k.x, s |-> SNom, selfexit |-> k.x]      \* as if everything ran exactly on time
LabelSound == /\ c.label = "early" => Early(Nominal(c)) /\ ~Blocked(Nominal(c))
              /\ c.label \in {"blocked", "late"} => Blocked(Nominal(c))
              /\ c.label = "boundary" => ~Blocked(Nominal(c)) /\ c.x + M > IntTime(c.D)
              /\ c.D >= 2 * Grace(c.D) + 2 * M                                \* "a few hundred milliseconds upward"
EveryClassEveryD == \A D \in Ds : {k.label : k \in Cases(D)} = {"blocked", "late", "early", "boundary"}
GraceFormula == /\ (Grace(c.D) + 1) * 20 > c.D /\ Grace(c.D) >= G100     \* 5% of the distance (in whole ms), at least 100 ms
                /\ (Grace(c.D) > G100 => Grace(c.D) * 20 <= c.D)
                /\ IntTime(c.D) + 2 * Grace(c.D) = c.D /\ KillTime(c.D) + Grace(c.D) = c.D
=============================================================================
