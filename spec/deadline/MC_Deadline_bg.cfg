SPECIFICATION Spec
CONSTANTS
  GMinT = 4
  J = 1
  Bug = "none"
  Emit = FALSE
  Scenarios <- MCScenarios
  Ds = {12, 20, 32, 48, 80, 120, 200, 320}
  XStep = 4
  Near = 4
  Fgs = {FALSE}
CONSTRAINT TimeBound
INVARIANTS TypeOK NoStuck IntIffCtxBeforeWait KillOnlyAfterGrace NoEscalationInBg Attribution BoundedReturn EarlyOwnStatus NoChildLeft SatisfiesL1 NotHung
CHECK_DEADLOCK TRUE
