SPECIFICATION Spec
CONSTANTS
  G100 = 100
  M = 40
  Delta = 10
  K = 16
INVARIANTS InvWellFormed InvHFinished InvHNotEarlyInt InvHInterruptedIfBlocked InvHVerdictBlocked InvHVerdictEarly InvHVerdictBoundary InvHNoChildLeft InvHNotEarlyTimeout InvSIntOnTime InvSKillOnTime InvSKillNotBeforeGrace InvSDoneByDeadline InvSEarlyUndelayed InvSLateKillNotBeforeGrace InvSLateKillOnTime InvHLateKillNotBeforeGrace
CHECK_DEADLOCK FALSE
