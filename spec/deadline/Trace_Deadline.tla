--------------------------- MODULE Trace_Deadline ---------------------------
(***************************************************************************)
(* Validation of observations recorded from real runs of testscript.RunT   *)
(* with Params.Deadline set (harness/drivers/deadline) against the         *)
(* contract DeadlineL1.  Every line of trace.ndjson is one script of one   *)
(* RunT call (fields as in DeadlineL1, times in ms).  The records are      *)
(* independent, so K lanes validate them in parallel.  A law that fails    *)
(* prints <<"BAD", law, index>> (the verdict is taken from those lines);   *)
(* the class the contract puts each record in is emitted for the coverage  *)
(* count.                                                                  *)
(***************************************************************************)
EXTENDS DeadlineL1, TLC, Json, Sequences

CONSTANTS K
Trace == ndJsonDeserialize("trace.ndjson")

VARIABLE i

Class(o) == IF o.hung THEN "hung" ELSE IF Early(o) THEN "early"
            ELSE IF Blocked(o) THEN (IF MustBeKilled(o) THEN "blocked-killed" ELSE "blocked") ELSE "boundary"
Note(k) == PrintT(<<"EMIT", ToJson([idx |-> k, id |-> Trace[k].id, class |-> Class(Trace[k])])>>)

Init == i \in 1..K /\ i <= Len(Trace) /\ Note(i)
Next == i + K <= Len(Trace) /\ i' = i + K /\ Note(i + K)
Spec == Init /\ [][Next]_i

o == Trace[i]
Bad(name) == PrintT(<<"BAD", name, i>>)

WellFormed == /\ o.D \in Nat /\ o.x \in Int /\ o.onint \in {"die", "ignore"} /\ o.ok \in BOOLEAN /\ o.neg \in BOOLEAN
              /\ o.after \in Nat /\ o.start \in Int /\ o.prevend \in Int /\ o.sig \in Int /\ o.selfexit \in Int /\ o.last \in Int /\ o.done \in Int /\ o.rundone \in Int
              /\ o.hung \in BOOLEAN /\ o.alive \in BOOLEAN /\ o.s \in Nat /\ o.srun \in Nat /\ o.jit \in Nat /\ o.gap \in Nat
              /\ o.verdict \in {"pass", "fail", "skip", "none"}
              /\ o.msg \in {"none", "timedout", "cmdfail", "cmdsuccess", "other"}

InvWellFormed            == WellFormed \/ Bad("WellFormed")
InvHFinished             == HFinished(o) \/ Bad("HFinished")
InvHNotEarlyInt          == HNotEarlyInt(o) \/ Bad("HNotEarlyInt")
InvHInterruptedIfBlocked == HInterruptedIfBlocked(o) \/ Bad("HInterruptedIfBlocked")
InvHVerdictBlocked       == HVerdictBlocked(o) \/ Bad("HVerdictBlocked")
InvHVerdictEarly         == HVerdictEarly(o) \/ Bad("HVerdictEarly")
InvHVerdictBoundary      == HVerdictBoundary(o) \/ Bad("HVerdictBoundary")
InvHNoChildLeft          == HNoChildLeft(o) \/ Bad("HNoChildLeft")
InvHNotEarlyTimeout      == HNotEarlyTimeout(o) \/ Bad("HNotEarlyTimeout")
InvSIntOnTime            == SIntOnTime(o) \/ Bad("SIntOnTime")
InvSKillOnTime           == SKillOnTime(o) \/ Bad("SKillOnTime")
InvSKillNotBeforeGrace   == SKillNotBeforeGrace(o) \/ Bad("SKillNotBeforeGrace")
InvSDoneByDeadline       == SDoneByDeadline(o) \/ Bad("SDoneByDeadline")
InvSEarlyUndelayed       == SEarlyUndelayed(o) \/ Bad("SEarlyUndelayed")
InvSLateKillNotBeforeGrace == SLateKillNotBeforeGrace(o) \/ Bad("SLateKillNotBeforeGrace")
InvSLateKillOnTime       == SLateKillOnTime(o) \/ Bad("SLateKillOnTime")
InvHLateKillNotBeforeGrace == HLateKillNotBeforeGrace(o) \/ Bad("HLateKillNotBeforeGrace")
=============================================================================
