SPECIFICATION Spec
CONSTANTS
  Bug = "OverlapAllowed"
  MCV = 2
  MCN = 1
  MaxStart = 2
  MaxCount = 2
  MaxHunks = 2
INVARIANTS InvDecl InvSym InvShape InvNewSideArithmetic InvExist
CHECK_DEADLOCK FALSE
