----------------------------- MODULE DiffDomain -----------------------------
(***************************************************************************)
(* C08 -- the input domains, defined on the specification side.            *)
(*                                                                         *)
(* D1(V, N): all pairs of texts of at most N lines over V line values,     *)
(*   each non-empty text with and without the final newline.  AllTexts is  *)
(*   a fixed enumeration (a sequence) of the texts, PairAt(T, i) the i-th  *)
(*   pair.  The Go driver enumerates the same pairs by index; TLC checks   *)
(*   (MC_DiffDomain) that the enumeration is a bijection onto the set      *)
(*   TextSet(V, N) defined without reference to any order, and             *)
(*   (Trace_PatchApply) that record i of the driver is PairAt(i), so the   *)
(*   exhaustiveness claim is certified here, not taken from the driver.    *)
(*                                                                         *)
(* D2(B): a backbone of B distinct lines; at most 3 edit sites, each       *)
(*   deleting the line, inserting a fresh line before it, replacing it by  *)
(*   a fresh line, or inserting a duplicate of a distant backbone line     *)
(*   before it; times three final-newline variants.  These are emitted by  *)
(*   TLC (MC_DiffDomain) and read by the driver.                           *)
(***************************************************************************)
EXTENDS Integers, Sequences, FiniteSets

\* ---- D1 ------------------------------------------------------------------
RECURSIVE SeqsOfLen(_, _)
\* all id sequences of length L over 1..V, first line most significant
SeqsOfLen(V, L) ==
    IF L = 0 THEN << <<>> >>
    ELSE LET P == SeqsOfLen(V, L - 1) IN
         [j \in 1..(Len(P) * V) |-> Append(P[((j - 1) \div V) + 1], ((j - 1) % V) + 1)]

AsText(s, nl) == [k \in 1..Len(s) |-> <<s[k], IF k = Len(s) THEN nl ELSE 1>>]

\* texts of exactly L >= 1 lines: for every id sequence the text with, then without, final newline
TextsOfLen(V, L) ==
    LET P == SeqsOfLen(V, L) IN
    [j \in 1..(2 * Len(P)) |-> AsText(P[((j - 1) \div 2) + 1], IF j % 2 = 1 THEN 1 ELSE 0)]

RECURSIVE TextsUpTo(_, _)
TextsUpTo(V, N) == IF N = 0 THEN << <<>> >> ELSE TextsUpTo(V, N - 1) \o TextsOfLen(V, N)

PairAt(T, i) == <<T[((i - 1) \div Len(T)) + 1], T[((i - 1) % Len(T)) + 1]>>

\* the same domain as a set, without any order
TextSet(V, N) ==
    {<<>>} \cup UNION { { AsText(s, nl) : s \in [1..L -> 1..V], nl \in {0, 1} } : L \in 1..N }

\* ---- D2 ------------------------------------------------------------------
Ops == {"del", "ins", "rep", "dup"}

\* edit choices: functions from a set of at most MaxSites backbone positions to operations
Choices(B, MaxSites) ==
    UNION { [S -> Ops] : S \in { S \in SUBSET (1..B) : Cardinality(S) <= MaxSites } }
ChoicesExactly(B, k) ==
    UNION { [S -> Ops] : S \in { S \in SUBSET (1..B) : Cardinality(S) = k } }

Fresh2(B, k) == B + k                   \* a line that occurs nowhere else
DupOf(B, k)  == ((k + 4) % B) + 1       \* a distant backbone line (makes that line non-unique)

RECURSIVE NewIds(_, _, _)
NewIds(B, ch, k) ==
    IF k > B THEN <<>>
    ELSE (IF k \notin DOMAIN ch THEN <<k>>
          ELSE CASE ch[k] = "del" -> <<>>
                 [] ch[k] = "ins" -> <<Fresh2(B, k), k>>
                 [] ch[k] = "rep" -> <<Fresh2(B, k)>>
                 [] ch[k] = "dup" -> <<DupOf(B, k), k>>)
         \o NewIds(B, ch, k + 1)

\* nlv: 0 both texts end in a newline, 1 only old lacks it, 2 both lack it
D2Old(B, nlv)     == AsText([k \in 1..B |-> k], IF nlv = 0 THEN 1 ELSE 0)
D2New(B, ch, nlv) == AsText(NewIds(B, ch, 1), IF nlv = 2 THEN 0 ELSE 1)
=============================================================================
