SPECIFICATION Spec
CONSTANTS
  V = 3
  N = 4
  B = 14
  MaxSites = 2
  Sample = 1500
  NLVariants = {0, 1, 2}
INVARIANT InvD2
CHECK_DEADLOCK FALSE
