---------------------------- MODULE MC_DiffDomain ----------------------------
(***************************************************************************)
(* (1) Certifies the enumeration of D1(V, N): AllT is a duplicate-free     *)
(*     enumeration of exactly TextSet(V, N), every text is well formed,    *)
(*     and PairAt is onto the pairs; prints the size the driver must       *)
(*     cover.  (ASSUMEs, evaluated by TLC before the state search.)        *)
(* (2) Enumerates D2: every initial state is one (edit choice, newline     *)
(*     variant); TLC checks the construction laws on each and emits the    *)
(*     pair for the driver.  Full = all choices with <= MaxSites sites,    *)
(*     plus Sample random choices with exactly MaxSites + 1 sites          *)
(*     (TLC -seed = VERIF_SEED).                                           *)
(***************************************************************************)
EXTENDS DiffDomain, TLC, Json, Randomization

CONSTANTS V, N, B, MaxSites, Sample, NLVariants

AllT == TextsUpTo(V, N)

WellFormedText(t) ==
    \A k \in 1..Len(t) : t[k][2] \in {0, 1} /\ (t[k][2] = 0 => k = Len(t))

ASSUME { AllT[k] : k \in 1..Len(AllT) } = TextSet(V, N)
ASSUME Cardinality(TextSet(V, N)) = Len(AllT)
ASSUME \A k \in 1..Len(AllT) : WellFormedText(AllT[k]) /\ Len(AllT[k]) <= N
ASSUME PairAt(AllT, 1) = << <<>>, <<>> >>
ASSUME PairAt(AllT, Len(AllT) * Len(AllT)) = <<AllT[Len(AllT)], AllT[Len(AllT)]>>
ASSUME PrintT(<<"D1SIZE", V, N, Len(AllT), Len(AllT) * Len(AllT)>>)

D2Choices == Choices(B, MaxSites)
             \cup (IF Sample > 0 THEN RandomSubset(Sample, ChoicesExactly(B, MaxSites + 1)) ELSE {})

VARIABLES ch, nlv, emitted
vars == <<ch, nlv, emitted>>

Case == [old |-> D2Old(B, nlv), new |-> D2New(B, ch, nlv)]

\* emission happens in Next so that TLC's workers share it
Init == /\ ch \in D2Choices
        /\ nlv \in NLVariants
        /\ emitted = FALSE
Next == /\ ~emitted
        /\ emitted' = TRUE
        /\ UNCHANGED <<ch, nlv>>
        /\ PrintT(<<"EMIT", ToJson(Case)>>)
Spec == Init /\ [][Next]_vars

\* construction laws of D2
Count(op) == Cardinality({k \in DOMAIN ch : ch[k] = op})
\* (evaluated on the emitted states only: those are produced by the workers in parallel)
InvD2 == emitted =>
         /\ WellFormedText(Case.old) /\ WellFormedText(Case.new)
         /\ Len(Case.old) = B
         /\ Len(Case.new) = B - Count("del") + Count("ins") + Count("dup")
         /\ (DOMAIN ch # {} => Case.old # Case.new)
         \* the backbone lines that are not edited keep their relative order in new
         /\ LET keep == SelectSeq([k \in 1..B |-> k], LAMBDA k : k \notin DOMAIN ch \/ ch[k] \in {"ins", "dup"})
                got  == SelectSeq([k \in 1..Len(Case.new) |-> Case.new[k][1]],
                                  LAMBDA id : id <= B /\ (id \notin DOMAIN ch \/ ch[id] \in {"ins", "dup"}))
            IN \A k \in 1..Len(keep) : \E j \in 1..Len(got) : got[j] = keep[k]
=============================================================================
