---------------------------- MODULE MC_PatchApply ----------------------------
(***************************************************************************)
(* Model checking of the patch-application machine itself.  For EVERY pair *)
(* of texts of a tiny domain, TLC explores EVERY sequence of diff events   *)
(* (bounded start lines / counts / number of hunks) for as long as one of  *)
(* the two appliers is alive, and checks in every state:                   *)
(*   InvDecl   the machine accepts, in both directions, exactly the event  *)
(*             sequences that are grammatical and whose hunks satisfy the  *)
(*             declarative ValidPatch (counts match bodies, hunks in order *)
(*             and not overlapping, bodies match both texts, untouched     *)
(*             parts equal) -- soundness and completeness of the applier;  *)
(*   InvSym    forward acceptance <=> reverse acceptance;                  *)
(*   InvShape  bookkeeping of positions and owed counts;                   *)
(*   InvExist  for every pair an accepted diff exists (the whole-file      *)
(*             hunk), so "rejected" is never forced by the machine.        *)
(* hs / gram / fin are history variables: the hunks offered so far, an     *)
(* independent automaton for the event grammar, and "Finish was offered".  *)
(***************************************************************************)
EXTENDS PatchApply, DiffDomain

CONSTANTS MCV, MCN, MaxStart, MaxCount, MaxHunks

VARIABLES hs, gram, fin
vars == <<old, new, fwd, rev, hs, gram, fin>>

Texts == TextSet(MCV, MCN)

Init == /\ old \in Texts
        /\ new \in Texts
        /\ fwd = Fresh
        /\ rev = Fresh
        /\ hs = <<>>
        /\ gram = "start"
        /\ fin = FALSE

G(from, to) == gram' = IF gram = from THEN to ELSE "bad"

Next ==
    /\ ~fin
    /\ Alive(fwd) \/ Alive(rev)
    /\ \/ \E ok \in {0, 1} : /\ Ev(<<EvHeader, ok>>)
                             /\ gram' = IF gram = "start" /\ ok = 1 THEN "between" ELSE "bad"
                             /\ UNCHANGED <<hs, fin>>
       \/ /\ Len(hs) < MaxHunks
          /\ \E os \in 0..MaxStart, ns \in 0..MaxStart, oc \in 0..MaxCount, nc \in 0..MaxCount :
                /\ BeginHunk(os, oc, ns, nc)
                /\ hs' = Append(hs, [os |-> os, oc |-> oc, ns |-> ns, nc |-> nc, body |-> <<>>])
          /\ G("between", "hunk")
          /\ UNCHANGED fin
       \/ \E k \in {EvCtx, EvDel, EvAdd}, id \in 1..MCV, nl \in {0, 1} :
                /\ Ev(<<k, id, nl>>)
                /\ hs' = IF Len(hs) > 0 THEN [hs EXCEPT ![Len(hs)].body = Append(@, <<k, id, nl>>)] ELSE hs
                /\ G("hunk", "hunk")
                /\ UNCHANGED fin
       \/ EndHunk /\ G("hunk", "between") /\ UNCHANGED <<hs, fin>>
       \/ Finish /\ G("between", "done") /\ fin' = TRUE /\ UNCHANGED hs
       \/ Junk /\ gram' = "bad" /\ UNCHANGED <<hs, fin>>
    \* an event that kills both appliers leads nowhere (nothing is accepted from there):
    \* such successors are not kept, which keeps the state graph small
    /\ Alive(fwd') \/ Alive(rev')

Spec == Init /\ [][Next]_vars

\* ---- laws -----------------------------------------------------------------
InvDecl ==
    fin => LET v == gram = "done" /\ ValidPatch(old, new, hs) IN
           /\ (fwd.phase = "done") = v
           /\ (rev.phase = "done") = v

InvSym == fin => ((fwd.phase = "done") = (rev.phase = "done"))

ShapeOK(a, src) ==
    /\ a.phase \in {"start", "between", "hunk", "done", "fail"}
    /\ a.pos \in 0..Len(src)
    /\ a.ro >= 0 /\ a.rn >= 0
    /\ a.phase = "hunk" => a.pos + a.ro <= Len(src)          \* owed source lines exist
    /\ a.phase \in {"start", "between", "done"} => (a.ro = 0 /\ a.rn = 0)
    /\ a.phase = "done" => a.pos = Len(src)
InvShape == ShapeOK(fwd, old) /\ ShapeOK(rev, new)

\* the produced side stands exactly where the current hunk header says
InvNewSideArithmetic ==
    (fwd.phase = "hunk" /\ Len(hs) > 0 /\ gram = "hunk") =>
        Len(fwd.out) + fwd.rn = Pre(hs[Len(hs)].ns, hs[Len(hs)].nc) + hs[Len(hs)].nc

InvExist ==
    gram = "start" => LET s == Run(old, new, WholeFileDiff(old, new)) IN
                      s.f.phase = "done" /\ s.r.phase = "done"

\* the header predicate on concrete lines
ASSUME HeaderOK("diff a b", "--- a", "+++ b", "a", "b")
ASSUME HeaderOK("diff -u a b", "--- a\t2020-01-01", "+++ b", "a", "b")
ASSUME ~HeaderOK("diff a b", "--- b", "+++ b", "a", "b")
ASSUME ~HeaderOK("diff a b", "--- a", "++ b", "a", "b")
ASSUME ~HeaderOK("--- a", "+++ b", "@@ -1 +1 @@", "a", "b")
ASSUME ~HeaderOK("diff a b", "--- ab", "+++ b", "a", "b")
=============================================================================
