----------------------------- MODULE PatchApply -----------------------------
(***************************************************************************)
(* C08 -- the independent patch applier, as a state machine.               *)
(*                                                                         *)
(* A text is a sequence of lines; a line is a pair <<id, nl>>: id is the   *)
(* identity of the line's content (the diff algorithm only ever compares   *)
(* lines for equality, so contents are abstracted to naturals; the driver  *)
(* interns real contents, 0 = "content that occurs in neither text"),      *)
(* nl = 1 if the line is terminated by a newline, 0 if it is the last line *)
(* of a text lacking the final newline.  In a unified diff that attribute  *)
(* is carried by a "\ No newline at end of file" marker after the body     *)
(* line; here it is an attribute of the body line's event.                 *)
(*                                                                         *)
(* A unified diff is a sequence of events                                  *)
(*    Header  BeginHunk(os,oc,ns,nc) (Ctx|Del|Add)* EndHunk ... Finish     *)
(* The machine applies the diff to `old` hunk by hunk (forward applier,    *)
(* fwd) and, in the same behaviour, applies the same hunks in reverse to   *)
(* `new` (reverse applier, rev: sides and Del/Add swapped).  The diff is   *)
(* ACCEPTED iff both appliers reach phase "done":                          *)
(*   - the file header comes first and has the three lines,                *)
(*   - every hunk starts at or after the end of the previous one (in       *)
(*     order, no overlap), inside the text,                                *)
(*   - start lines obey the unified-diff convention: for a non-empty side  *)
(*     the start is the 1-based number of its first line, for an empty     *)
(*     side (count 0) it is the number of the line preceding the hunk,     *)
(*     hence "0,0" for an empty file,                                      *)
(*   - the new-side start is exactly where the output stands,              *)
(*   - context and deleted lines equal the source lines (id AND newline    *)
(*     attribute), body line counts equal the declared counts,             *)
(*   - after copying the unchanged tail the output equals the target.      *)
(* An applier that meets anything else moves to the absorbing phase "fail" *)
(* and remembers why.                                                      *)
(*                                                                         *)
(* Bug # "none" selects a deliberately broken applier; the Bug_*.cfg       *)
(* configurations show that TLC then finds a violation of the laws in      *)
(* MC_PatchApply (the invariants are not vacuous).                         *)
(***************************************************************************)
EXTENDS Integers, Sequences, FiniteSets, TLC

CONSTANT Bug

\* ---- texts ---------------------------------------------------------------
WellFormedText(t) ==
    \A k \in 1..Len(t) : /\ t[k][2] \in {0, 1}
                         /\ (t[k][2] = 0 => k = Len(t))

\* ---- event kinds (uniformly typed integer tuples, see Trace_PatchApply) ---
EvHeader == 0   \* <<0, ok>>            ok = 1 iff the three header lines are right
EvBegin  == 1   \* <<1, os, oc, ns, nc>>
EvCtx    == 2   \* <<2, id, nl>>
EvDel    == 3   \* <<3, id, nl>>
EvAdd    == 4   \* <<4, id, nl>>
EvEnd    == 5   \* <<5>>
EvFinish == 6   \* <<6>>
EvJunk   == 7   \* <<7>>  anything the tokeniser could not read as diff syntax

MaxContext == 3

\* ---- one applier -----------------------------------------------------------
\* pos  : number of source lines consumed        out  : target lines produced
\* ro/rn: body lines still owed to the declared old-side / new-side count
\* lead/trail/run/chg/notes: shape of the hunks (context length), reported as
\*   drift only -- the statement of C08 does not fix the amount of context.
Fresh == [phase |-> "start", why |-> "", pos |-> 0, out |-> <<>>, ro |-> 0, rn |-> 0,
          hunks |-> 0, lead |-> 0, trail |-> 0, chg |-> 0, notes |-> {}]

Fail(a, why) == [phase |-> "fail", why |-> why, pos |-> 0, out |-> <<>>, ro |-> 0, rn |-> 0,
                 hunks |-> a.hunks, lead |-> 0, trail |-> 0, chg |-> 0, notes |-> {}]

Alive(a) == a.phase # "fail"

\* number of lines that precede a hunk side with the given start and count
Pre(start, count) == IF count = 0 THEN start ELSE start - 1

StepHeader(a, ok) ==
    IF a.phase # "start" THEN Fail(a, "file header repeated or not first")
    ELSE IF ok # 1 THEN Fail(a, "the three header lines are missing or malformed")
    ELSE [a EXCEPT !.phase = "between"]

\* s1,c1: start/count on the side this applier consumes, s2,c2: on the side it produces
StepBegin(a, src, s1, c1, s2, c2) ==
    IF a.phase # "between" THEN Fail(a, "hunk header before the file header or inside a hunk")
    ELSE IF s1 < 0 \/ c1 < 0 \/ s2 < 0 \/ c2 < 0 \/ (c1 > 0 /\ s1 = 0) \/ (c2 > 0 /\ s2 = 0)
         THEN Fail(a, "hunk header numbers out of range")
    ELSE LET pre == Pre(s1, c1) IN
         IF Bug # "OverlapAllowed" /\ pre < a.pos
              THEN Fail(a, "hunk out of order or overlapping the previous hunk")
         ELSE IF pre + c1 > Len(src) THEN Fail(a, "hunk extends beyond the end of the text (empty-side start convention?)")
         ELSE LET out2 == a.out \o SubSeq(src, a.pos + 1, pre) IN
              IF Pre(s2, c2) # Len(out2)
                   THEN Fail(a, "start line of the produced side does not match the lines produced so far")
              ELSE [a EXCEPT !.phase = "hunk", !.pos = pre, !.out = out2, !.ro = c1, !.rn = c2,
                             !.hunks = @ + 1, !.lead = 0, !.trail = 0, !.chg = 0]

SameLine(have, l) == IF Bug = "NoNewlineIgnored" THEN have[1] = l[1] ELSE have = l

StepCtx(a, src, l) ==
    IF a.phase # "hunk" THEN Fail(a, "body line outside a hunk")
    ELSE IF a.ro = 0 \/ a.rn = 0 THEN Fail(a, "more body lines than the hunk header declares")
    ELSE IF ~SameLine(src[a.pos + 1], l) THEN Fail(a, "context line differs from the text")
    ELSE [a EXCEPT !.pos = @ + 1, !.out = Append(@, l), !.ro = @ - 1, !.rn = @ - 1,
                   !.lead = IF a.chg = 0 THEN @ + 1 ELSE @,
                   !.trail = @ + 1,
                   !.notes = IF a.chg = 1 /\ a.trail + 1 > 2 * MaxContext
                             THEN @ \cup {"interior context run longer than 6"} ELSE @]

StepDel(a, src, l) ==
    IF a.phase # "hunk" THEN Fail(a, "body line outside a hunk")
    ELSE IF a.ro = 0 THEN Fail(a, "more body lines than the hunk header declares")
    ELSE IF ~SameLine(src[a.pos + 1], l) THEN Fail(a, "removed line differs from the text")
    ELSE [a EXCEPT !.pos = @ + 1, !.ro = @ - 1, !.chg = 1, !.trail = 0]

StepAdd(a, l) ==
    IF a.phase # "hunk" THEN Fail(a, "body line outside a hunk")
    ELSE IF a.rn = 0 THEN Fail(a, "more body lines than the hunk header declares")
    ELSE [a EXCEPT !.out = Append(@, l), !.rn = @ - 1, !.chg = 1, !.trail = 0]

StepEnd(a) ==
    IF a.phase # "hunk" THEN Fail(a, "hunk end outside a hunk")
    ELSE IF Bug # "CountsUnchecked" /\ (a.ro # 0 \/ a.rn # 0)
         THEN Fail(a, "fewer body lines than the hunk header declares")
    ELSE [a EXCEPT !.phase = "between", !.ro = 0, !.rn = 0,
                   !.notes = @ \cup (IF a.lead > MaxContext \/ (a.chg = 1 /\ a.trail > MaxContext)
                                     THEN {"more than 3 lines of context"} ELSE {})
                               \cup (IF a.chg = 0 THEN {"hunk without a change"} ELSE {})]

StepFinish(a, src, tgt) ==
    IF a.phase # "between" THEN Fail(a, "diff ends inside a hunk or before the file header")
    ELSE LET out2 == a.out \o SubSeq(src, a.pos + 1, Len(src)) IN
         IF out2 # tgt THEN Fail(a, "applying the hunks does not reproduce the other text")
         ELSE [a EXCEPT !.phase = "done", !.pos = Len(src), !.out = out2]

StepJunk(a) == Fail(a, "line that is not unified diff syntax")

\* One event applied to the forward applier f (old -> new) and to the reverse
\* applier r (new -> old).  An applier that failed stays failed.
Both(f, r, o, n, e) ==
    LET k == e[1]
        l == <<e[2], e[3]>>
        F(x) == IF Alive(f) THEN x ELSE f
        R(x) == IF Alive(r) THEN x ELSE r
    IN CASE k = EvHeader -> [f |-> F(StepHeader(f, e[2])), r |-> R(StepHeader(r, e[2]))]
         [] k = EvBegin  -> [f |-> F(StepBegin(f, o, e[2], e[3], e[4], e[5])),
                             r |-> R(StepBegin(r, n, e[4], e[5], e[2], e[3]))]
         [] k = EvCtx    -> [f |-> F(StepCtx(f, o, l)), r |-> R(StepCtx(r, n, l))]
         [] k = EvDel    -> [f |-> F(StepDel(f, o, l)), r |-> R(StepAdd(r, l))]
         [] k = EvAdd    -> [f |-> F(StepAdd(f, l)),    r |-> R(StepDel(r, n, l))]
         [] k = EvEnd    -> [f |-> F(StepEnd(f)),       r |-> R(StepEnd(r))]
         [] k = EvFinish -> [f |-> F(IF f.phase = "done" THEN Fail(f, "events after the end") ELSE StepFinish(f, o, n)),
                             r |-> R(IF r.phase = "done" THEN Fail(r, "events after the end") ELSE StepFinish(r, n, o))]
         [] OTHER        -> [f |-> F(StepJunk(f)), r |-> R(StepJunk(r))]

\* ---- the machine -------------------------------------------------------------
VARIABLES old, new, fwd, rev
pvars == <<old, new, fwd, rev>>

Ev(e) == LET s == Both(fwd, rev, old, new, e) IN
         /\ fwd' = s.f
         /\ rev' = s.r
         /\ UNCHANGED <<old, new>>

\* the three header lines: "diff OLD NEW" / "--- OLD" / "+++ NEW"; the wording of the
\* first line is not fixed by the statement beyond being the "diff" line.
StartsWith(s, p) == Len(s) >= Len(p) /\ SubSeq(s, 1, Len(p)) = p
NameLine(s, mark, name) == s = mark \o name \/ StartsWith(s, mark \o name \o "\t")
HeaderOK(l1, l2, l3, on, nn) == /\ StartsWith(l1, "diff ")
                                /\ NameLine(l2, "--- ", on)
                                /\ NameLine(l3, "+++ ", nn)

Header(l1, l2, l3, on, nn) == Ev(<<EvHeader, IF HeaderOK(l1, l2, l3, on, nn) THEN 1 ELSE 0>>)
BeginHunk(os, oc, ns, nc)  == Ev(<<EvBegin, os, oc, ns, nc>>)
Ctx(l)  == Ev(<<EvCtx, l[1], l[2]>>)
Del(l)  == Ev(<<EvDel, l[1], l[2]>>)
Add(l)  == Ev(<<EvAdd, l[1], l[2]>>)
EndHunk == Ev(<<EvEnd>>)
Finish  == Ev(<<EvFinish>>)
Junk    == Ev(<<EvJunk>>)

Accepted == fwd.phase = "done" /\ rev.phase = "done"
Rejected == fwd.phase = "fail" \/ rev.phase = "fail"

\* ---- running a whole event list (used for the existence law) ----------------
RECURSIVE RunFrom(_, _, _, _, _, _)
RunFrom(f, r, o, n, evs, k) ==
    IF k > Len(evs) THEN [f |-> f, r |-> r]
    ELSE LET s == Both(f, r, o, n, evs[k]) IN RunFrom(s.f, s.r, o, n, evs, k + 1)
Run(o, n, evs) == RunFrom(Fresh, Fresh, o, n, evs, 1)

\* the trivial diff: one hunk that removes all of o and adds all of n
WholeFileDiff(o, n) ==
    <<<<EvHeader, 1>>,
      <<EvBegin, IF Len(o) = 0 THEN 0 ELSE 1, Len(o), IF Len(n) = 0 THEN 0 ELSE 1, Len(n)>>>>
    \o [k \in 1..Len(o) |-> <<EvDel, o[k][1], o[k][2]>>]
    \o [k \in 1..Len(n) |-> <<EvAdd, n[k][1], n[k][2]>>]
    \o <<<<EvEnd>>, <<EvFinish>>>>

\* ---- the declarative meaning of "these hunks turn o into n" -------------------
\* hs: sequence of hunks [os, oc, ns, nc, body], body a sequence of <<kind, id, nl>>.
\* Independent of the machine and visibly symmetric in the two sides; TLC checks
\* (MC_PatchApply) that the machine accepts exactly the valid hunk lists.
BodyLine(b) == <<b[2], b[3]>>
RECURSIVE SideOf(_, _)
SideOf(body, kinds) ==
    IF body = <<>> THEN <<>>
    ELSE IF Head(body)[1] \in kinds THEN <<BodyLine(Head(body))>> \o SideOf(Tail(body), kinds)
    ELSE SideOf(Tail(body), kinds)
OldSide(h) == SideOf(h.body, {EvCtx, EvDel})
NewSide(h) == SideOf(h.body, {EvCtx, EvAdd})

ValidPatch(o, n, hs) ==
    LET m == Len(hs)
        preO(k) == IF k = m + 1 THEN Len(o) ELSE Pre(hs[k].os, hs[k].oc)
        preN(k) == IF k = m + 1 THEN Len(n) ELSE Pre(hs[k].ns, hs[k].nc)
        endO(k) == IF k = 0 THEN 0 ELSE preO(k) + hs[k].oc
        endN(k) == IF k = 0 THEN 0 ELSE preN(k) + hs[k].nc
    IN /\ \A k \in 1..m :
            /\ hs[k].os >= 0 /\ hs[k].ns >= 0
            /\ (hs[k].oc > 0 => hs[k].os > 0) /\ (hs[k].nc > 0 => hs[k].ns > 0)
            /\ Len(OldSide(hs[k])) = hs[k].oc            \* counts match the body
            /\ Len(NewSide(hs[k])) = hs[k].nc
            /\ endO(k) <= Len(o) /\ endN(k) <= Len(n)
            /\ SubSeq(o, preO(k) + 1, endO(k)) = OldSide(hs[k])   \* body matches both texts
            /\ SubSeq(n, preN(k) + 1, endN(k)) = NewSide(hs[k])
       /\ \A k \in 0..m :
            /\ endO(k) <= preO(k + 1) /\ endN(k) <= preN(k + 1)   \* in order, no overlap
            /\ SubSeq(o, endO(k) + 1, preO(k + 1)) = SubSeq(n, endN(k) + 1, preN(k + 1))  \* untouched parts equal
=============================================================================
