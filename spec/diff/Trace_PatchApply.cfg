SPECIFICATION Spec
CONSTANTS
  Bug = "none"
  K = 256
  V = 3
  N = 4
  D1Lo = 1
  D1Count = 0
  Strict = FALSE
INVARIANT AllAccepted
CHECK_DEADLOCK FALSE
