--------------------------- MODULE Trace_PatchApply ---------------------------
(***************************************************************************)
(* Binding B2 for C08: every record of trace.ndjson is one call of the     *)
(* REAL diff.Diff -- the two texts (as <<id, nl>> lines), whether the      *)
(* result was empty, the three header lines, and the rest of the output    *)
(* tokenised by the driver into the events of PatchApply.  TLC replays     *)
(* each record as a behaviour of the patch-application machine: one        *)
(* machine action per logged event, forward (old -> new) and reverse       *)
(* (new -> old) in the same behaviour.  Traces are concatenated with       *)
(* TraceReset; the case index runs in K lanes, each lane validating whole  *)
(* traces, so TLC's workers validate in parallel and no trace is split.    *)
(*                                                                         *)
(* st = "run"  the diff of case c is being replayed, e events consumed     *)
(*      "acc"  accepted: both appliers done after the last event, or the   *)
(*             result was empty and the texts are identical                *)
(*      "rej"  rejected; the step that rejects reports (EMIT line)         *)
(*             [t: "BAD", c, e, f: reason-forward, r: reason-reverse]      *)
(* Every rejected diff is thereby named.  With Strict = TRUE (used to      *)
(* confirm named cases, few records) `AllAccepted` is an invariant and     *)
(* TLC itself reports the violation with the rejecting prefix as its       *)
(* counterexample.                                                         *)
(*                                                                         *)
(* Domain certification: records 1..D1Count must be the pairs              *)
(* PairAt(D1Lo), PairAt(D1Lo + 1), ... of D1(V, N) (DiffDomain); a record  *)
(* that is not stops TLC with an assertion failure (harness error, no      *)
(* verdict).                                                               *)
(***************************************************************************)
EXTENDS PatchApply, DiffDomain, Json

CONSTANTS K, V, N, D1Lo, D1Count, Strict

Trace == ndJsonDeserialize("trace.ndjson")
AllT  == TextsUpTo(V, N)

VARIABLES c, e, st
vars == <<old, new, fwd, rev, c, e, st>>

Rec(k) == Trace[k]

\* reports are single EMIT lines (JSON), collected by the check
Report(x) == PrintT(<<"EMIT", ToJson(x)>>)
Bad(k, n, wf, wr) == Report([t |-> "BAD", c |-> k, e |-> n, f |-> wf, r |-> wr])

\* the law on the record: nothing returned <=> the texts are identical
Judge0(r) ==
    IF r.panic = 1 THEN "rej"
    ELSE IF r.nil = 1 THEN (IF r.old = r.new THEN "acc" ELSE "rej")
    ELSE IF r.old = r.new THEN "rej" ELSE "run"

Why0(r) == IF r.panic = 1 THEN "Diff panicked"
           ELSE IF r.nil = 1 THEN "nothing returned although the texts differ"
           ELSE "a diff returned although the texts are identical"

DomainOK(k) ==
    k <= D1Count => /\ Rec(k).d1 = D1Lo + k - 1
                    /\ <<Rec(k).old, Rec(k).new>> = PairAt(AllT, Rec(k).d1)

Load(k) ==
    /\ Assert(DomainOK(k), <<"record is not the expected pair of D1", k>>)
    /\ Assert(WellFormedText(Rec(k).old) /\ WellFormedText(Rec(k).new), <<"ill-formed text in record", k>>)
    /\ c' = k
    /\ e' = 0
    /\ old' = Rec(k).old
    /\ new' = Rec(k).new
    /\ fwd' = Fresh
    /\ rev' = Fresh
    /\ st' = Judge0(Rec(k))
    /\ (Judge0(Rec(k)) = "rej" => Bad(k, 0, Why0(Rec(k)), Why0(Rec(k))))

Init == \E k \in 1..K :
          /\ k <= Len(Trace)
          /\ Assert(DomainOK(k), <<"record is not the expected pair of D1", k>>)
          /\ Assert(WellFormedText(Rec(k).old) /\ WellFormedText(Rec(k).new), <<"ill-formed text in record", k>>)
          /\ c = k
          /\ e = 0
          /\ old = Rec(k).old
          /\ new = Rec(k).new
          /\ fwd = Fresh
          /\ rev = Fresh
          /\ st = Judge0(Rec(k))
          /\ (Judge0(Rec(k)) = "rej" => Bad(k, 0, Why0(Rec(k)), Why0(Rec(k))))

Events == Rec(c).ev
Event  == Events[e + 1]

\* the logged event selects the machine action
ReplayEvent ==
    LET x == Event r == Rec(c) IN
    \/ x[1] = EvHeader /\ Header(r.h[1], r.h[2], r.h[3], r.on, r.nn)
    \/ x[1] = EvBegin  /\ BeginHunk(x[2], x[3], x[4], x[5])
    \/ x[1] = EvCtx    /\ Ctx(<<x[2], x[3]>>)
    \/ x[1] = EvDel    /\ Del(<<x[2], x[3]>>)
    \/ x[1] = EvAdd    /\ Add(<<x[2], x[3]>>)
    \/ x[1] = EvEnd    /\ EndHunk
    \/ x[1] = EvFinish /\ Finish
    \/ x[1] = EvJunk   /\ Junk

\* reason reported for one applier: why it failed, or that the events ran out before it was done,
\* or "" if this applier had no objection so far (the other one rejected)
WhyOf(a, atEnd) == IF a.phase = "fail" THEN a.why
                   ELSE IF atEnd /\ a.phase # "done" THEN "diff ends early" ELSE ""

Step ==
    /\ st = "run"
    /\ e < Len(Events)
    /\ ReplayEvent
    /\ e' = e + 1
    /\ c' = c
    /\ st' = IF fwd'.phase = "fail" \/ rev'.phase = "fail" THEN "rej"
             ELSE IF e' < Len(Events) THEN "run"
             ELSE IF fwd'.phase = "done" /\ rev'.phase = "done" THEN "acc"
             ELSE "rej"
    /\ (st' = "rej" => Bad(c, e', WhyOf(fwd', e' >= Len(Events)), WhyOf(rev', e' >= Len(Events))))
    /\ ((st' = "acc" /\ fwd'.notes # {}) => Report([t |-> "DRIFT", c |-> c, notes |-> fwd'.notes]))

\* a non-empty result without any event cannot be a diff
Stuck ==
    /\ st = "run"
    /\ e >= Len(Events)
    /\ st' = "rej"
    /\ Bad(c, e, "diff ends early", "diff ends early")
    /\ UNCHANGED <<old, new, fwd, rev, c, e>>

TraceReset ==
    /\ st \in {"acc", "rej"}
    /\ c + K <= Len(Trace)
    /\ Load(c + K)

Next == Step \/ Stuck \/ TraceReset
Spec == Init /\ [][Next]_vars

AllAccepted == Strict => st # "rej"
=============================================================================
