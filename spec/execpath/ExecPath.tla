------------------------------ MODULE ExecPath ------------------------------
(***************************************************************************)
(* internal/os/execpath.Look on Unix: the search testscript's `exec` makes *)
(* for a program named without a slash, through the PATH of the SCRIPT's   *)
(* environment (not the process's), and the direct test of a name with a   *)
(* slash.  Statement (doc comment + "Unix shell semantics"):               *)
(*   - a name containing a slash is tried directly, getenv is not called;  *)
(*   - otherwise the elements of PATH are tried in order, an empty element *)
(*     means ".", and the first element whose directory holds an           *)
(*     executable non-directory of that name wins; the result is           *)
(*     Join(element, name);                                                *)
(*   - executable = stat succeeds (links are followed), not a directory,   *)
(*     some execute bit set;                                               *)
(*   - nothing found: error ErrNotFound (search) or the cause (direct).    *)
(*                                                                         *)
(* A world says what stands under the program's name in each place; a      *)
(* place is the directory a PATH element denotes.  Elements are strings;   *)
(* Place maps them to places ("none": the element names no directory).     *)
(***************************************************************************)
EXTENDS Naturals, Sequences, FiniteSets

CONSTANT Bug   \* "none" | "LastWins" | "DirOk" | "EmptySkipped": seeded faults the laws must reject

Kinds == {"absent", "exec", "noexec", "dir", "lnexec", "lnnoexec", "lndangle", "lndir"}
Places == {"cwd", "bin", "A", "B"}
\* "" and "." are the current directory, "bin" a directory below it (relative element), "A" / "B" absolute
\* directories, "NX" a directory that does not exist, "F" an element that names a regular file
Elements == {"", ".", "bin", "A", "B", "NX", "F"}
Place(e) == CASE e \in {"", "."} -> "cwd" [] e = "bin" -> "bin" [] e = "A" -> "A" [] e = "B" -> "B" [] OTHER -> "none"

\* stat follows links: an executable regular file, directly or through a link
Executable(k) == IF Bug = "DirOk" THEN k \in {"exec", "lnexec", "dir", "lndir"} ELSE k \in {"exec", "lnexec"}
\* why a direct test fails
Cause(k) == IF k \in {"absent", "lndangle"} THEN "notexist" ELSE "permission"

Hit(path, w, i) == LET e == path[i] IN
                   /\ ~(Bug = "EmptySkipped" /\ e = "")
                   /\ Place(e) # "none" /\ Executable(w[Place(e)])
Hits(path, w) == {i \in 1..Len(path) : Hit(path, w, i)}
Min(S) == CHOOSE x \in S : \A y \in S : x <= y
Max(S) == CHOOSE x \in S : \A y \in S : x >= y

\* the search: index of the winning element, 0 = not found
Look(path, w) == IF Hits(path, w) = {} THEN 0
                 ELSE IF Bug = "LastWins" THEN Max(Hits(path, w)) ELSE Min(Hits(path, w))
\* the direct test of "<element>/name": "ok" or the cause
Direct(e, w) == IF Place(e) = "none" THEN (IF e = "F" THEN "notdir" ELSE "notexist")
                ELSE IF Executable(w[Place(e)]) THEN "ok" ELSE Cause(w[Place(e)])
=============================================================================
