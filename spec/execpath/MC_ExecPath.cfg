\* checks/x04.py generates the cfg per tier
SPECIFICATION Spec
CONSTANTS
  Bug = "none"
  MaxPath = 3
  PathElems = {"", ".", "bin", "A", "B", "NX"}
  KindsCwd = {"absent", "exec", "noexec", "dir", "lnexec", "lndangle"}
  KindsBin = {"absent", "exec", "noexec", "dir", "lnexec", "lndangle"}
  KindsA = {"absent", "exec", "noexec", "dir", "lnexec", "lndangle"}
  KindsB = {"absent", "exec"}
  Emit = FALSE
INVARIANTS InvEmit InvFirst InvComplete InvEmptyIsDot InvPrefix InvKinds InvRepeat InvDirect
CHECK_DEADLOCK FALSE
