---------------------------- MODULE MC_ExecPath -----------------------------
(***************************************************************************)
(* Generator: every state is a pair (world, PATH) - worlds over the kinds  *)
(* per place, PATH lists of up to MaxPath elements.  TLC checks the laws   *)
(* of the statement on the specification in every state and emits the      *)
(* state with the predicted answer; harness/drivers/execpath builds the    *)
(* world on disk and calls the real Look.                                  *)
(***************************************************************************)
EXTENDS ExecPath, TLC, Json

CONSTANTS MaxPath, PathElems, KindsCwd, KindsBin, KindsA, KindsB, Emit

VARIABLES w, path
vars == <<w, path>>

Worlds == {[cwd |-> c, bin |-> b, A |-> a, B |-> bb] : c \in KindsCwd, b \in KindsBin, a \in KindsA, bb \in KindsB}

Case == [w |-> w, path |-> path, expect |-> Look(path, w),
         direct |-> [e \in PathElems |-> Direct(e, w)]]
\* PATH is one string: a list holding just the empty element is written like the empty list (filepath.SplitList("") is
\* empty), so it is not an input of its own
Expressible == path # <<"">>
EmitCase == IF Emit /\ Expressible THEN PrintT(<<"EMIT", ToJson(Case)>>) ELSE TRUE

Init == w \in Worlds /\ path = <<>>
Next == /\ Len(path) < MaxPath
        /\ \E e \in PathElems : path' = Append(path, e)
        /\ w' = w
Spec == Init /\ [][Next]_vars
\* emitted from an invariant so that initial states are emitted too
InvEmit == EmitCase

\* ---- laws of the statement, on the specification ----
r == Look(path, w)
\* the winner holds an executable, nothing in front of it does
InvFirst == Expressible /\ r # 0 => /\ Hit(path, w, r)
                     /\ \A j \in 1..(r - 1) : ~Hit(path, w, j)
\* not found exactly when no element holds one
InvComplete == Expressible => (r = 0) = (\A j \in 1..Len(path) : ~Hit(path, w, j))
\* an empty element is the current directory
InvEmptyIsDot == LET q == [j \in 1..Len(path) |-> IF path[j] = "" THEN "." ELSE path[j]] IN Expressible => Look(q, w) = r
\* an element in front that holds no executable only shifts the answer
InvPrefix == \A e \in PathElems : (Expressible /\ <<e>> \o path # <<"">>) /\ (Place(e) = "none" \/ ~Executable(w[Place(e)])) =>
                 Look(<<e>> \o path, w) = (IF r = 0 THEN 0 ELSE r + 1)
\* directories and files without execute bits never win; links count as what they lead to
InvKinds == r # 0 => w[Place(path[r])] \in {"exec", "lnexec"}
\* a repeated element never changes the winner's place
InvRepeat == r # 0 => \A e \in PathElems : Look(Append(path, e), w) = r
\* search and direct test agree: the search finds something iff the direct test of some element succeeds
InvDirect == Expressible => (r # 0) = (\E j \in 1..Len(path) : Direct(path[j], w) = "ok")
=============================================================================
