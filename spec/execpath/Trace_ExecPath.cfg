SPECIFICATION Spec
CONSTANTS
  K = 16
  Bug = "none"
INVARIANTS RecShape RecAnswer RecGetenv RecDirect RecDirectNoEnv
CHECK_DEADLOCK FALSE
