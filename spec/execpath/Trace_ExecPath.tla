--------------------------- MODULE Trace_ExecPath ---------------------------
(***************************************************************************)
(* Validation of records of the real execpath.Look on seeded random worlds *)
(* and long PATH lists (harness/drivers/execpath, mode random).  A record: *)
(*   w       kind per place                                                *)
(*   path    PATH elements in order (strings of ExecPath!Elements)         *)
(*   got     index of the element whose Join(element, name) Look returned, *)
(*           0 = ErrNotFound, -1 = any other outcome                       *)
(*   calls   how often Look called getenv, keys  the names it asked for    *)
(*           (nilenv: Look was given no function and read the process's)   *)
(*   slash   the element tried directly ("" = none), dgot its outcome      *)
(*   dcalls  getenv calls during the direct test                           *)
(***************************************************************************)
EXTENDS ExecPath, TLC, Json, Integers

CONSTANTS K
Trace == ndJsonDeserialize("trace.ndjson")
VARIABLE i
vars == <<i>>
Init == i \in 1..K
Next == i + K <= Len(Trace) /\ i' = i + K
Spec == Init /\ [][Next]_vars
Live == i <= Len(Trace)
T == Trace[i]
Bad(name) == PrintT(<<"BAD", name, i>>)

RecShape == (Live => /\ \A j \in 1..Len(T.path) : T.path[j] \in Elements
                     /\ \A p \in Places : T.w[p] \in Kinds) \/ Bad("RecShape")
RecAnswer == (Live => T.got = Look(T.path, T.w)) \/ Bad("RecAnswer")
\* the environment is asked for PATH, once, and for nothing else
RecGetenv == (Live /\ ~T.nilenv => T.calls = 1 /\ T.keys = <<"PATH">>) \/ Bad("RecGetenv")
RecDirect == (Live /\ T.slash # "-" => T.dgot = Direct(T.slash, T.w)) \/ Bad("RecDirect")
RecDirectNoEnv == (Live /\ T.slash # "-" => T.dcalls = 0) \/ Bad("RecDirectNoEnv")
=============================================================================
