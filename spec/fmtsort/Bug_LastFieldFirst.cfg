\* sanity: run with MC_FmtSort.tla; struct fields compared from the last to the first: still a total
\* order, so only the sentence "structs compare each field in turn" (InvDoc, L1_InTurn) rejects it.
SPECIFICATION Spec
CONSTANTS
  Emit = FALSE
  MaxKeys = 3
  Bug = "LastFieldFirst"
INVARIANTS InvRange InvReflexive InvAntisymmetric InvTransitive InvEqual InvDoc InvPrediction InvOrder
CHECK_DEADLOCK FALSE
