\* sanity: run with MC_FmtSort.tla; floats compared with < and > only (no NaN rule).
\* TLC must report InvTransitive (1 ~ NaN ~ 2 but 1 < 2) or InvEqual / InvDoc violated.
SPECIFICATION Spec
CONSTANTS
  Emit = FALSE
  MaxKeys = 3
  Bug = "NaNUnordered"
INVARIANTS InvRange InvReflexive InvAntisymmetric InvTransitive InvEqual InvDoc InvPrediction InvOrder
CHECK_DEADLOCK FALSE
