\* sanity: run with MC_FmtSort.tla; a nil pointer / channel sorts after the others: InvDoc (L1_Addr) must fail.
SPECIFICATION Spec
CONSTANTS
  Emit = FALSE
  MaxKeys = 3
  Bug = "NilHigh"
INVARIANTS InvRange InvReflexive InvAntisymmetric InvTransitive InvEqual InvDoc InvPrediction InvOrder
CHECK_DEADLOCK FALSE
