------------------------------ MODULE FmtSort ------------------------------
(***************************************************************************)
(* The ordering of map keys documented for fmtsort.Sort (doc comment of    *)
(* Sort in /repo/fmtsort/sort.go):                                         *)
(*    - when applicable, nil compares low                                  *)
(*    - ints, floats, and strings order by <                               *)
(*    - NaN compares less than non-NaN floats                              *)
(*    - bool compares false before true                                    *)
(*    - complex compares real, then imag                                   *)
(*    - pointers compare by machine address                                *)
(*    - channel values compare by machine address                          *)
(*    - structs compare each field in turn                                 *)
(*    - arrays compare each element in turn                                *)
(*    - interface values compare first by reflect.Type describing the      *)
(*      concrete type and then by concrete value                           *)
(* and: SortedMap "has the same keys and values", Value[i] is the value    *)
(* of Key[i], "modulo issues raised by unorderable key values such as      *)
(* NaNs".                                                                  *)
(*                                                                         *)
(* A value is a record [k |-> kind, v |-> payload]:                        *)
(*   "int", "uint"  v an integer (abstract; the harness embeds it into a   *)
(*                  Go integer type by a strictly monotone function)       *)
(*   "string"       v a sequence of bytes (naturals)                       *)
(*   "bool"         v a BOOLEAN                                            *)
(*   "float"        v a float payload [nan |-> BOOLEAN, x |-> Int]: x is   *)
(*                  the (monotonically embedded) number, or for a NaN a    *)
(*                  tag telling two NaN keys of one map apart (every NaN   *)
(*                  is a key of its own: NaN # NaN in Go)                  *)
(*   "complex"      v = <<re, im>>, two float payloads                     *)
(*   "ptr", "chan"  v the rank of the machine address; 0 is nil (address   *)
(*                  0 / "nil compares low"); the harness measures the      *)
(*                  addresses, the specification never predicts them       *)
(*   "struct", "array"  v the sequence of field / element values           *)
(*   "iface"        t the name of the dynamic type ("nil" for a nil        *)
(*                  interface), v the dynamic value ([k |-> "nil", v |-> 0]*)
(*                  for nil)                                               *)
(*                                                                         *)
(* What the documentation leaves open is a parameter or an equivalence:    *)
(*   * the order of two different reflect.Types is not documented: every   *)
(*     comparison takes the sequence  tr  of type names in ascending type  *)
(*     order as an argument; the harness reads tr off the real output and  *)
(*     the laws are checked for every tr.                                  *)
(*   * NaN against NaN is not documented: a comparison that meets a NaN on *)
(*     both sides ends there undecided, the two keys are equivalent in the *)
(*     preorder (Cmp = 0); a key set with more than one NaN-bearing key is *)
(*     "not judged" (Judged): there the documentation promises nothing     *)
(*     definite ("modulo issues raised by unorderable key values").        *)
(*                                                                         *)
(* Cmp is written the way the package is (a recursive three-way compare);  *)
(* the L1_* operators restate the sentences of the documentation without   *)
(* recursion on the comparison result; MC_FmtSort checks that they agree   *)
(* and that Cmp is a total preorder.                                       *)
(***************************************************************************)
EXTENDS Integers, Sequences, FiniteSets

CONSTANT Bug      \* "none", or the name of a broken comparator (sanity of the laws)

IntCmp(a, b) == IF a < b THEN -1 ELSE IF a > b THEN 1 ELSE 0

\* NaN compares less than non-NaN floats.  NaN against NaN is left open by the documentation:
\* the comparison ends there undecided (result UNDECIDED, which Cmp turns into 0).
UNDECIDED == 2
FloatCmp(a, b) ==
  IF Bug = "NaNUnordered" THEN (IF a.nan \/ b.nan THEN 0 ELSE IntCmp(a.x, b.x))   \* plain <, > on floats
  ELSE IF a.nan /\ b.nan THEN UNDECIDED
  ELSE IF a.nan THEN -1
  ELSE IF b.nan THEN 1
  ELSE IntCmp(a.x, b.x)

\* strings order by <: byte-wise lexicographic, a proper prefix is smaller
RECURSIVE BytesCmp(_, _, _)
BytesCmp(a, b, i) ==
  IF i > Len(a) THEN (IF i > Len(b) THEN 0 ELSE -1)
  ELSE IF i > Len(b) THEN 1
  ELSE IF a[i] # b[i] THEN IntCmp(a[i], b[i])
  ELSE BytesCmp(a, b, i + 1)

BoolCmp(a, b) == IF a = b THEN 0 ELSE IF b THEN -1 ELSE 1

\* position of a type name in the ascending type order tr
Rank(tr, t) == CHOOSE i \in 1..Len(tr) : tr[i] = t

RECURSIVE C3(_, _, _), InTurn(_, _, _, _, _)

\* fields / elements i, i+d, ... in turn; the first one that differs (or is undecided) decides
InTurn(a, b, i, d, tr) ==
  IF i < 1 \/ i > Len(a) THEN 0
  ELSE LET c == C3(a[i], b[i], tr) IN IF c # 0 THEN c ELSE InTurn(a, b, i + d, d, tr)

\* -1, 0, 1 or UNDECIDED
C3(a, b, tr) ==
  CASE a.k \in {"int", "uint"} -> IntCmp(a.v, b.v)
    [] a.k = "string"  -> BytesCmp(a.v, b.v, 1)
    [] a.k = "bool"    -> BoolCmp(a.v, b.v)
    [] a.k = "float"   -> FloatCmp(a.v, b.v)
    [] a.k = "complex" -> LET first  == IF Bug = "ImagFirst" THEN 2 ELSE 1
                              second == 3 - first
                              c == FloatCmp(a.v[first], b.v[first])
                          IN IF c # 0 THEN c ELSE FloatCmp(a.v[second], b.v[second])
    [] a.k \in {"ptr", "chan"} -> IF Bug = "NilHigh" /\ (a.v = 0) # (b.v = 0)
                                  THEN (IF a.v = 0 THEN 1 ELSE -1)
                                  ELSE IntCmp(a.v, b.v)          \* nil is address 0
    [] a.k = "struct"  -> IF Bug = "LastFieldFirst" THEN InTurn(a.v, b.v, Len(a.v), -1, tr)
                          ELSE InTurn(a.v, b.v, 1, 1, tr)
    [] a.k = "array"   -> InTurn(a.v, b.v, 1, 1, tr)
    [] a.k = "iface"   -> IF a.t = "nil" THEN (IF b.t = "nil" THEN 0 ELSE -1)
                          ELSE IF b.t = "nil" THEN 1
                          ELSE IF a.t # b.t THEN IntCmp(Rank(tr, a.t), Rank(tr, b.t))
                          ELSE C3(a.v, b.v, tr)

\* The preorder: keys whose comparison ends at a pair of NaNs are equivalent.
Cmp(a, b, tr) == LET c == C3(a, b, tr) IN IF c = UNDECIDED THEN 0 ELSE c

----------------------------------------------------------------------------
\* NaNs inside a value

RECURSIVE HasNaN(_), HasNaNSeq(_, _)
HasNaNSeq(s, i) == i <= Len(s) /\ (HasNaN(s[i]) \/ HasNaNSeq(s, i + 1))
HasNaN(a) ==
  CASE a.k = "float" -> a.v.nan
    [] a.k = "complex" -> a.v[1].nan \/ a.v[2].nan
    [] a.k \in {"struct", "array"} -> HasNaNSeq(a.v, 1)
    [] a.k = "iface" -> HasNaN(a.v)
    [] OTHER -> FALSE

\* The documentation fixes the result for key sets with at most one unorderable key
\* ("modulo issues raised by unorderable key values such as NaNs").
Judged(S) == Cardinality({x \in S : HasNaN(x)}) <= 1
JudgedSeq(s) == Cardinality({j \in 1..Len(s) : HasNaN(s[j])}) <= 1

\* dynamic types among interface keys
IfaceTypes(S) == {x.t : x \in {y \in S : y.k = "iface" /\ y.t # "nil"}}

----------------------------------------------------------------------------
\* The prediction: the keys of S in ascending order (selection sort; a least element
\* exists because Cmp is a total preorder - checked by MC_FmtSort).

Least(S, tr) == CHOOSE x \in S : \A y \in S : Cmp(x, y, tr) <= 0
RECURSIVE SortKeys(_, _)
SortKeys(S, tr) == IF S = {} THEN <<>> ELSE LET m == Least(S, tr) IN <<m>> \o SortKeys(S \ {m}, tr)

SortedSeq(s, tr)   == \A j \in 1..Len(s) - 1 : Cmp(s[j], s[j + 1], tr) <= 0
StrictlySorted(s, tr) == \A j \in 1..Len(s) - 1 : Cmp(s[j], s[j + 1], tr) < 0
IndexOf(s, x) == CHOOSE j \in 1..Len(s) : s[j] = x

\* all sequences that enumerate the set T once
Perms(T) == {f \in [1..Cardinality(T) -> T] : \A i, j \in 1..Cardinality(T) : f[i] = f[j] => i = j}

----------------------------------------------------------------------------
\* L1: the sentences of the documentation, one by one, as properties of Cmp on a pair

\* "ints ... order by <"
L1_Int(a, b, tr) == a.k \in {"int", "uint"} =>
  /\ (Cmp(a, b, tr) < 0) = (a.v < b.v)
  /\ (Cmp(a, b, tr) = 0) = (a.v = b.v)

\* "strings order by <": a < b iff after the longest common prefix a ends and b does not, or a's next byte is smaller
CommonPrefix(a, b) == CHOOSE n \in 0..Len(a) :
   /\ n <= Len(b)
   /\ \A j \in 1..n : a[j] = b[j]
   /\ (n < Len(a) /\ n < Len(b)) => a[n + 1] # b[n + 1]
StrLess(a, b) == LET n == CommonPrefix(a, b) IN
                 \/ n = Len(a) /\ n < Len(b)
                 \/ n < Len(a) /\ n < Len(b) /\ a[n + 1] < b[n + 1]
L1_String(a, b, tr) == a.k = "string" =>
  /\ (Cmp(a, b, tr) < 0) = StrLess(a.v, b.v)
  /\ (Cmp(a, b, tr) = 0) = (a.v = b.v)

\* "floats order by <", "NaN compares less than non-NaN floats"
L1_Float(a, b, tr) == a.k = "float" =>
  /\ (~a.v.nan /\ ~b.v.nan) => ((Cmp(a, b, tr) < 0) = (a.v.x < b.v.x) /\ (Cmp(a, b, tr) = 0) = (a.v.x = b.v.x))
  /\ (a.v.nan /\ ~b.v.nan) => Cmp(a, b, tr) < 0
  /\ (~a.v.nan /\ b.v.nan) => Cmp(a, b, tr) > 0

\* "bool compares false before true"
L1_Bool(a, b, tr) == a.k = "bool" => ((Cmp(a, b, tr) < 0) = (~a.v /\ b.v))

\* "complex compares real, then imag"
AsFloat(p) == [k |-> "float", v |-> p]
L1_Complex(a, b, tr) == a.k = "complex" =>
  LET re == Cmp(AsFloat(a.v[1]), AsFloat(b.v[1]), tr)
      im == Cmp(AsFloat(a.v[2]), AsFloat(b.v[2]), tr)
  IN Cmp(a, b, tr) = IF re # 0 THEN re ELSE im

\* "pointers / channel values compare by machine address", "nil compares low"
L1_Addr(a, b, tr) == a.k \in {"ptr", "chan"} =>
  /\ (Cmp(a, b, tr) < 0) = (a.v < b.v)
  /\ (a.v = 0 /\ b.v # 0) => Cmp(a, b, tr) < 0

\* "structs compare each field in turn", "arrays compare each element in turn":
\* the result is that of the first position whose members differ
L1_InTurn(a, b, tr) == a.k \in {"struct", "array"} =>
  LET D == {i \in 1..Len(a.v) : Cmp(a.v[i], b.v[i], tr) # 0} IN
  IF D = {} THEN Cmp(a, b, tr) = 0
  ELSE LET i == CHOOSE i \in D : \A j \in D : i <= j IN Cmp(a, b, tr) = Cmp(a.v[i], b.v[i], tr)

\* "nil compares low"; "interface values compare first by reflect.Type ... then by concrete value"
L1_Iface(a, b, tr) == a.k = "iface" =>
  /\ (a.t = "nil" /\ b.t # "nil") => Cmp(a, b, tr) < 0
  /\ (a.t = "nil" /\ b.t = "nil") => Cmp(a, b, tr) = 0
  /\ (a.t # "nil" /\ b.t # "nil" /\ a.t # b.t) => (Cmp(a, b, tr) < 0) = (Rank(tr, a.t) < Rank(tr, b.t))
  /\ (a.t # "nil" /\ a.t = b.t) => Cmp(a, b, tr) = Cmp(a.v, b.v, tr)

L1_All(a, b, tr) == /\ L1_Int(a, b, tr) /\ L1_String(a, b, tr) /\ L1_Float(a, b, tr) /\ L1_Bool(a, b, tr)
                    /\ L1_Complex(a, b, tr) /\ L1_Addr(a, b, tr) /\ L1_InTurn(a, b, tr) /\ L1_Iface(a, b, tr)

=============================================================================
