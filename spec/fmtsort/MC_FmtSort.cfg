SPECIFICATION Spec
CONSTANTS
  Emit = TRUE
  MaxKeys = 4
  Bug = "none"
INVARIANTS InvRange InvReflexive InvAntisymmetric InvTransitive InvEqual InvDoc InvPrediction InvOrder
CHECK_DEADLOCK FALSE
