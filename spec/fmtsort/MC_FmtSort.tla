----------------------------- MODULE MC_FmtSort -----------------------------
(***************************************************************************)
(* Bounded enumerator for FmtSort.tla.  A state is one map: a key type and *)
(* a set of 1..MaxKeys distinct keys of that type taken from a small       *)
(* universe U(ty).                                                         *)
(*                                                                         *)
(* TLC checks in every state, for every type order tr over the dynamic     *)
(* types present, on all pairs / triples of keys of the state (all pairs   *)
(* and triples of each universe are covered because every subset of up to  *)
(* three keys is a state):                                                 *)
(*   InvRange, InvReflexive, InvAntisymmetric, InvTransitive               *)
(*                 Cmp is a total preorder with values in {-1, 0, 1}       *)
(*   InvEqual      two different keys of which at most one holds a NaN     *)
(*                 never compare equal                                     *)
(*   InvDoc        every sentence of the documentation (L1_All) holds for  *)
(*                 every pair of keys of which at most one holds a NaN     *)
(*   InvPrediction the predicted sequence is sorted, a permutation of the  *)
(*                 keys, and - when the set is judged - the only sorted    *)
(*                 permutation, so the prediction is forced by the         *)
(*                 documentation                                           *)
(* and emits the map (entries in an arbitrary fixed order, value = index)  *)
(* with the predicted order for every tr.                                  *)
(***************************************************************************)
EXTENDS FmtSort, TLC, Json

CONSTANTS Emit, MaxKeys

V(k, v)  == [k |-> k, v |-> v]
Num(x)   == [nan |-> FALSE, x |-> x]
NaN(i)   == [nan |-> TRUE, x |-> i]
Str(S, n) == UNION {[1..m -> S] : m \in 0..n}          \* byte strings of length <= n over S
Nil      == [k |-> "iface", t |-> "nil", v |-> V("nil", 0)]
Dyn(t, x) == [k |-> "iface", t |-> t, v |-> x]

Types == <<"int", "uint", "string", "bool", "float", "complex", "ptr", "chan",
           "struct_is", "struct_fb", "array_2i", "array_3b", "nested", "iface">>

Bools == {V("bool", FALSE), V("bool", TRUE)}
SmallInts == {V("int", n) : n \in -1..1}
Strs1 == {V("string", <<>>), V("string", <<97>>), V("string", <<98>>)}
Bits == {V("int", 0), V("int", 1)}

U(ty) ==
  CASE ty = "int"       -> {V("int", n) : n \in -2..2}
    [] ty = "uint"      -> {V("uint", n) : n \in 0..3}
    [] ty = "string"    -> {V("string", [j \in 1..Len(s) |-> s[j]]) : s \in Str({97, 98, 200}, 2)}
    [] ty = "bool"      -> Bools
    [] ty = "float"     -> {V("float", NaN(1)), V("float", NaN(2))} \cup {V("float", Num(x)) : x \in -2..2}
    [] ty = "complex"   -> LET P == {NaN(1)} \cup {Num(x) : x \in -1..1} IN {V("complex", <<r, i>>) : r \in P, i \in P}
    [] ty = "ptr"       -> {V("ptr", r) : r \in 0..4}
    [] ty = "chan"      -> {V("chan", r) : r \in 0..4}
    [] ty = "struct_is" -> {V("struct", <<a, b>>) : a \in SmallInts, b \in Strs1}
    [] ty = "struct_fb" -> {V("struct", <<V("float", f), b>>) : f \in {NaN(1), Num(-1), Num(1)}, b \in Bools}
    [] ty = "array_2i"  -> {V("array", <<a, b>>) : a \in SmallInts, b \in SmallInts}
    [] ty = "array_3b"  -> {V("array", <<a, b, c>>) : a \in Bools, b \in Bools, c \in Bools}
    [] ty = "nested"    -> {V("struct", <<V("array", <<a, b>>), c>>) : a \in Bits, b \in Bits, c \in Bools}
    [] ty = "iface"     -> {Nil} \cup {Dyn("int", V("int", n)) : n \in {-1, 1}} \cup {Dyn("int8", V("int", n)) : n \in {-1, 1}}
                           \cup {Dyn("string", V("string", <<>>)), Dyn("string", V("string", <<97>>))}
                           \cup {Dyn("bool", b) : b \in Bools}


VARIABLE s
vars == <<s>>

TypeOrders(S) == Perms(IfaceTypes(S))
AllIfaceTypes == <<"int", "int8", "string", "bool">>

\* the map handed to the harness: the keys in some fixed order (here: descending), value = position
Entries(S) == LET a == SortKeys(S, AllIfaceTypes) IN [j \in 1..Len(a) |-> [key |-> a[Len(a) + 1 - j], val |-> j]]
KeySeq(e) == [j \in 1..Len(e) |-> e[j].key]
Order(S, e, tr) == LET srt == SortKeys(S, tr) IN [j \in 1..Len(srt) |-> IndexOf(KeySeq(e), srt[j])]
Tuple(f) == [j \in 1..Cardinality(DOMAIN f) |-> f[j]]

Case(ty, S) == LET e == Entries(S) IN
  [kind |-> "case", ty |-> ty, judged |-> Judged(S), entries |-> e,
   expects |-> {[tyorder |-> Tuple(tr), order |-> Order(S, e, tr)] : tr \in TypeOrders(S)}]
Header == [kind |-> "hdr", types |-> Types, maxkeys |-> MaxKeys, universe |-> [j \in 1..Len(Types) |-> Cardinality(U(Types[j]))]]

\* The states form a tree of depth 2 (so that TLC's workers share the work): the start state, below it every
\* one-key map, below the map {x} every larger key set whose designated element is x.  The designated
\* element of S is the one that Least picks against every other element; every S has exactly one (the
\* check module compares the number of emitted cases with the number of subsets).
Above(ty, x) == {y \in U(ty) \ {x} : Least({x, y}, AllIfaceTypes) = x}
RECURSIVE UpTo(_, _)
UpTo(T, n) == IF n = 0 \/ T = {} THEN {{}}
              ELSE LET e == CHOOSE e \in T : TRUE IN UpTo(T \ {e}, n) \cup {R \cup {e} : R \in UpTo(T \ {e}, n - 1)}
EmitCase(ty, S) == IF Emit THEN PrintT(<<"EMIT", ToJson(Case(ty, S))>>) ELSE TRUE

Init == /\ s = [ty |-> "", keys |-> {}]
        /\ (IF Emit THEN PrintT(<<"EMIT", ToJson(Header)>>) ELSE TRUE)
Next == IF s.ty = ""
        THEN \E j \in 1..Len(Types) : \E x \in U(Types[j]) :
                /\ s' = [ty |-> Types[j], keys |-> {x}]
                /\ EmitCase(Types[j], {x})
        ELSE /\ Cardinality(s.keys) = 1
             /\ LET x == CHOOSE x \in s.keys : TRUE IN
                \E R \in UpTo(Above(s.ty, x), MaxKeys - 1) \ {{}} :
                   /\ s' = [ty |-> s.ty, keys |-> {x} \cup R]
                   /\ EmitCase(s.ty, s'.keys)
Spec == Init /\ [][Next]_vars

----------------------------------------------------------------------------
K == s.keys
TRS == TypeOrders(K)

InvRange == \A tr \in TRS : \A x, y \in K : Cmp(x, y, tr) \in {-1, 0, 1}
InvReflexive == \A tr \in TRS : \A x \in K : Cmp(x, x, tr) = 0
InvAntisymmetric == \A tr \in TRS : \A x, y \in K : Cmp(x, y, tr) = -Cmp(y, x, tr)
InvTransitive == \A tr \in TRS : \A x, y, z \in K :
   (Cmp(x, y, tr) <= 0 /\ Cmp(y, z, tr) <= 0) =>
      /\ Cmp(x, z, tr) <= 0
      /\ (Cmp(x, y, tr) < 0 \/ Cmp(y, z, tr) < 0) => Cmp(x, z, tr) < 0
InvEqual == \A tr \in TRS : \A x, y \in K : Judged({x, y}) => ((Cmp(x, y, tr) = 0) = (x = y))
InvDoc == \A tr \in TRS : \A x, y \in K : Judged({x, y}) => L1_All(x, y, tr)

IsPermOf(q, S) == Len(q) = Cardinality(S) /\ {q[j] : j \in 1..Len(q)} = S
InvPrediction == \A tr \in TRS :
   LET p == SortKeys(K, tr) IN
   /\ IsPermOf(p, K)
   /\ SortedSeq(p, tr)
   /\ Judged(K) => /\ StrictlySorted(p, tr)
                   /\ \A q \in Perms(K) : SortedSeq(q, tr) => q = p
\* the entries and the emitted order describe the same thing
InvOrder == \A tr \in TRS : LET e == Entries(K) o == Order(K, e, tr) IN
   /\ IsPermOf(KeySeq(e), K)
   /\ [j \in 1..Len(o) |-> e[o[j]].key] = SortKeys(K, tr)
=============================================================================
