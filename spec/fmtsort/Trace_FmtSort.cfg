SPECIFICATION Spec
CONSTANTS
  K = 16
  Bug = "none"
INVARIANTS RecNoPanic RecPermutation RecAligned RecSorted RecNaNDrift
CHECK_DEADLOCK FALSE
