---------------------------- MODULE Trace_FmtSort ---------------------------
(***************************************************************************)
(* Validation of records of the real fmtsort.Sort.  One record per call:   *)
(*   ty, gotype  key type (name of the universe / Go type, informative)    *)
(*   in       the keys put into the map, as values of FmtSort.tla          *)
(*   keys     the same keys as Go prints them (for reports, not read here) *)
(*   out      the keys of the returned SortedMap as indices into  in       *)
(*            (0: a key that was never put into the map)                   *)
(*   tyorder  for interface keys: the dynamic types in the order in which  *)
(*            they first occur in the real output (the documentation does  *)
(*            not fix an order of reflect.Types; it does say that keys are *)
(*            ordered by type first)                                       *)
(*   aligned  Value[i] is the value stored under Key[i] for every i        *)
(*   panic    Sort panicked / returned nil                                 *)
(* TLC evaluates on every record: the output is a permutation of the input *)
(* and - when the key set is judged (at most one NaN-bearing key) - it is  *)
(* sorted w.r.t. Cmp.  For key sets with several NaNs only the preorder    *)
(* (NaN ~ NaN, NaN below the numbers) is evaluated and a failure is        *)
(* reported as DRIFT, not as BAD.  Records are independent: K lanes.       *)
(***************************************************************************)
EXTENDS FmtSort, TLC, Json

CONSTANTS K

Trace == ndJsonDeserialize("trace.ndjson")

VARIABLE i
vars == <<i>>

Init == i \in 1..K
Next == i + K <= Len(Trace) /\ i' = i + K
Spec == Init /\ [][Next]_vars

Live == i <= Len(Trace)
R == Trace[i]
Ran == Live /\ ~R.panic
IsPerm == /\ Len(R.out) = Len(R.in)
          /\ {R.out[j] : j \in 1..Len(R.out)} = 1..Len(R.in)
OutKeys == [j \in 1..Len(R.out) |-> R.in[R.out[j]]]

\* A failing record is named on stdout ("BAD", invariant, index).  PrintT is TRUE, so the
\* invariants always hold and TLC ends normally; the BAD lines are the verdict.
Bad(name) == PrintT(<<"BAD", name, i>>)
RecNoPanic == (Live => ~R.panic) \/ Bad("RecNoPanic")
RecPermutation == (Ran => IsPerm) \/ Bad("RecPermutation")
RecAligned == (Ran => R.aligned) \/ Bad("RecAligned")
\* the first position j with Key[j] not below Key[j+1] is named as well ("WHERE", index, j)
FirstUnsorted == CHOOSE j \in 1..Len(R.out) - 1 : /\ Cmp(OutKeys[j], OutKeys[j + 1], R.tyorder) >= 0
                                                   /\ \A h \in 1..j - 1 : Cmp(OutKeys[h], OutKeys[h + 1], R.tyorder) < 0
RecSorted == ((Ran /\ IsPerm /\ JudgedSeq(R.in)) => StrictlySorted(OutKeys, R.tyorder))
                \/ (Bad("RecSorted") /\ PrintT(<<"WHERE", i, FirstUnsorted>>))
\* not judged, reported as drift only
RecNaNDrift == ((Ran /\ IsPerm /\ ~JudgedSeq(R.in)) => SortedSeq(OutKeys, R.tyorder)) \/ PrintT(<<"DRIFT", "RecNaNDrift", i>>)
=============================================================================
