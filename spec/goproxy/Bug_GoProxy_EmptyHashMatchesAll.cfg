\* sanity: the seeded fault "EmptyHashMatchesAll" of the code-shaped Handler must make TLC report a violated invariant
SPECIFICATION Spec
CONSTANTS
  Fam <- MCFam
  Bug = "EmptyHashMatchesAll"
  MaxItems = 2
  Stride = 1
  Seed = 1
  Emit = FALSE
INVARIANTS InvL1L2 InvDecode InvEscape InvServed InvZip InvList InvNotStored
CHECK_DEADLOCK FALSE
