\* sanity: with the seeded fault TLC must report a violated invariant
SPECIFICATION MCSpec
CONSTANTS
  Clients <- MCClients
  Bug = "DoneBeforeResult"
INVARIANTS RespSequential
CHECK_DEADLOCK FALSE
