\* sanity: with the seeded fault TLC must report a violated invariant
SPECIFICATION MCSpec
CONSTANTS
  Clients <- MCClients
  Bug = "NoSecondCheck"
INVARIANTS RespSequential OncePerKey PublishedOK NoStuck
CHECK_DEADLOCK FALSE
