------------------------------ MODULE GoProxy ------------------------------
(***************************************************************************)
(* goproxytest (property C20): the proxy serves exactly the modules stored *)
(* in its directory.                                                        *)
(*                                                                         *)
(* Two formulations of Response(store, request), both on bytes:            *)
(*                                                                         *)
(*  L1  statement-shaped.  The store is a set of items [mv, layout]; what  *)
(*      a module version holds is Files(mv, layout).  RespL1 reads the     *)
(*      statement: .info/.mod = the stored file, .zip = the stored files   *)
(*      whose name does not start with '.', under path@version/, list =    *)
(*      the valid non-pseudo versions of the path, everything else 404.    *)
(*      A commit-hash request stands for the greatest stored version       *)
(*      whose (known) hash it abbreviates or extends.                      *)
(*                                                                         *)
(*  L2  code-shaped.  The store is a directory: a sequence of entries      *)
(*      [name, isdir, files] in os.ReadDir order.  ModList decodes the     *)
(*      entry names (strip .txt/.txtar, cut at the last "_v", '_' -> '/',  *)
(*      case-unescape); Handler parses the URL (/mod/ prefix, "/@v/",      *)
(*      case-unescape, last '.', allHex resolution by iteration over       *)
(*      modList, readArchive = escape + '/' -> '_' + .txtar, .txt,         *)
(*      directory), and answers.                                           *)
(*                                                                         *)
(* MC_GoProxy checks L1 = L2 and the laws of the statement for every       *)
(* generated store and request, and emits the predictions.                 *)
(* Not modelled: the txtar syntax (an archive is its list of files; C03),  *)
(* semver parsing (versions are structured values rendered to bytes; the   *)
(* driver compares IsPseudo / Valid / Compare with golang.org/x/mod),      *)
(* module.CheckPath beyond case-escaping.                                  *)
(***************************************************************************)
EXTENDS Naturals, Sequences, FiniteSets, TLC, GPStrings

CONSTANTS Bug, Fam
\* Bug: "none" | "ZipDotFiles" | "NoEscape" | "ListPseudo" | "FirstIndexV" | "EmptyHashMatchesAll"
\* Fam: sequence of [path, ver, short, shape]; ver = [maj, min, pat, pre, build]

SLASH == 47  USCORE == 95  BANG == 33  DOT == 46  AT == 64  DASH == 45  PLUS == 43  LV == 118  NL == 10

IsUpper(c) == c >= 65 /\ c <= 90
IsLower(c) == c >= 97 /\ c <= 122
IsDigit(c) == c >= 48 /\ c <= 57
IsAlnum(c) == IsUpper(c) \/ IsLower(c) \/ IsDigit(c)
IsHexLower(c) == IsDigit(c) \/ (c >= 97 /\ c <= 102)

Min(S) == CHOOSE x \in S : \A y \in S : x <= y
Max(S) == CHOOSE x \in S : \A y \in S : y <= x
Range(s) == {s[i] : i \in 1..Len(s)}

RECURSIVE Flat(_)
Flat(ss) == IF ss = <<>> THEN <<>> ELSE Head(ss) \o Flat(Tail(ss))

HasPrefix(s, p) == Len(p) <= Len(s) /\ SubSeq(s, 1, Len(p)) = p
HasSuffix(s, p) == Len(p) <= Len(s) /\ SubSeq(s, Len(s) - Len(p) + 1, Len(s)) = p
TrimPrefix(s, p) == SubSeq(s, Len(p) + 1, Len(s))
TrimSuffix(s, p) == SubSeq(s, 1, Len(s) - Len(p))
At(s, i, p) == i + Len(p) - 1 <= Len(s) /\ SubSeq(s, i, i + Len(p) - 1) = p
\* 0 = not found (strings.Index / LastIndex + 1)
Index(s, p) == LET I == {i \in 1..Len(s) : At(s, i, p)} IN IF I = {} THEN 0 ELSE Min(I)
LastIndex(s, p) == LET I == {i \in 1..Len(s) : At(s, i, p)} IN IF I = {} THEN 0 ELSE Max(I)
Replace(s, a, b) == [i \in 1..Len(s) |-> IF s[i] = a THEN b ELSE s[i]]
AllHex(s) == \A i \in 1..Len(s) : IsHexLower(s[i])

RECURSIVE LexLess(_, _)
LexLess(a, b) == IF b = <<>> THEN FALSE
                 ELSE IF a = <<>> THEN TRUE
                 ELSE IF a[1] # b[1] THEN a[1] < b[1]
                 ELSE LexLess(Tail(a), Tail(b))

----------------------------------------------------------------------------
\* case escaping (module.EscapePath / EscapeVersion / Unescape*)
Escape(s) == Flat([i \in 1..Len(s) |-> IF IsUpper(s[i]) THEN <<BANG, s[i] + 32>> ELSE <<s[i]>>])

Fail == [ok |-> FALSE, s |-> <<>>]
Cons(c, r) == IF r.ok THEN [ok |-> TRUE, s |-> <<c>> \o r.s] ELSE r
RECURSIVE Unesc(_, _, _)
Unesc(s, i, bang) ==
  IF i > Len(s) THEN [ok |-> ~bang, s |-> <<>>]
  ELSE LET c == s[i] IN
       IF c >= 128 THEN Fail
       ELSE IF bang THEN (IF IsLower(c) THEN Cons(c - 32, Unesc(s, i + 1, FALSE)) ELSE Fail)
       ELSE IF c = BANG THEN Unesc(s, i + 1, TRUE)
       ELSE IF IsUpper(c) THEN Fail
       ELSE Cons(c, Unesc(s, i + 1, FALSE))
\* the empty string is no path and no version (checkElem / CheckPath)
Unescape(s) == LET r == Unesc(s, 1, FALSE) IN IF r.ok /\ r.s = <<>> THEN Fail ELSE r

----------------------------------------------------------------------------
\* versions: structured, rendered to bytes
Digits(n) == IF n < 10 THEN <<48 + n>> ELSE <<48 + (n \div 10), 48 + (n % 10)>>
RECURSIVE Join(_, _)
Join(ids, sep) == IF ids = <<>> THEN <<>>
                  ELSE IF Len(ids) = 1 THEN ids[1]
                  ELSE ids[1] \o <<sep>> \o Join(Tail(ids), sep)
VerStr(v) == <<LV>> \o Digits(v.maj) \o <<DOT>> \o Digits(v.min) \o <<DOT>> \o Digits(v.pat)
             \o (IF v.pre = <<>> THEN <<>> ELSE <<DASH>> \o Join(v.pre, DOT))
             \o (IF v.build = <<>> THEN <<>> ELSE <<PLUS>> \o v.build)

\* yyyymmddhhmmss-hash
IsTsHash(id) == /\ Len(id) >= 16
                /\ \A i \in 1..14 : IsDigit(id[i])
                /\ id[15] = DASH
                /\ \A i \in 16..Len(id) : IsAlnum(id[i])
HashPart(id) == SubSeq(id, 16, Len(id))
\* vX.0.0-ts-hash | vX.Y.Z-0.ts-hash | vX.Y.Z-pre.0.ts-hash, optionally +incompatible
IsPseudo(v) == /\ v.pre # <<>> /\ IsTsHash(v.pre[Len(v.pre)])
               /\ \/ Len(v.pre) = 1 /\ v.min = 0 /\ v.pat = 0
                  \/ Len(v.pre) >= 2 /\ v.pre[Len(v.pre) - 1] = I_0
               /\ v.build \in {<<>>, S_incompatible}

\* semver precedence: -1, 0, 1 as 0, 1, 2
IsNum(id) == id # <<>> /\ \A i \in 1..Len(id) : IsDigit(id[i])
IdLess(a, b) == IF IsNum(a) /\ IsNum(b) THEN Len(a) < Len(b) \/ (Len(a) = Len(b) /\ LexLess(a, b))
                ELSE IF IsNum(a) THEN TRUE
                ELSE IF IsNum(b) THEN FALSE
                ELSE LexLess(a, b)
RECURSIVE PreLess(_, _)
PreLess(a, b) == IF a = <<>> THEN b # <<>>
                 ELSE IF b = <<>> THEN FALSE
                 ELSE IF a[1] # b[1] THEN IdLess(a[1], b[1])
                 ELSE PreLess(Tail(a), Tail(b))
VerLess(a, b) == IF a.maj # b.maj THEN a.maj < b.maj
                 ELSE IF a.min # b.min THEN a.min < b.min
                 ELSE IF a.pat # b.pat THEN a.pat < b.pat
                 ELSE IF a.pre = <<>> THEN FALSE
                 ELSE IF b.pre = <<>> THEN TRUE
                 ELSE PreLess(a.pre, b.pre)

\* module.SplitPathVersion for paths without dots after /v: 0 = no major suffix
TrailDigits(s) == Len(s) - Max({0} \cup {i \in 1..Len(s) : ~IsDigit(s[i])})
PathMajor(p) == LET n == Len(p)  k == TrailDigits(p) IN
  IF k = 0 \/ n - k < 2 \/ p[n - k] # LV \/ p[n - k - 1] # SLASH THEN [ok |-> TRUE, maj |-> <<>>]
  ELSE LET d == SubSeq(p, n - k + 1, n) IN
       IF d[1] = 48 \/ d = I_1 THEN [ok |-> FALSE, maj |-> <<>>] ELSE [ok |-> TRUE, maj |-> d]
\* module.Check(path, version) for well-formed paths
Valid(p, v) == LET pm == PathMajor(p) IN
  /\ pm.ok
  /\ IF pm.maj = <<>> THEN v.maj <= 1 \/ v.build = S_incompatible
     ELSE Digits(v.maj) = pm.maj

----------------------------------------------------------------------------
\* what a stored module version holds
N == Len(Fam)
Layouts == <<"txtar", "txt", "dir">>                    \* in order of preference
LayoutIdx(l) == CHOOSE i \in 1..3 : Layouts[i] = l
F(n, d) == [name |-> n, data |-> d]

InfoOf(m, l) == S_infoA \o VerStr(Fam[m].ver) \o S_infoB \o Digits(LayoutIdx(l)) \o S_infoC
                \o (IF Fam[m].short = <<>> THEN <<>> ELSE S_infoD \o Fam[m].short \o S_quote) \o S_infoE
ModOf(m, l) == S_module \o Fam[m].path \o <<NL>> \o S_layoutcomment \o Digits(LayoutIdx(l)) \o <<NL>>
\* shape: "full" (nested, dot and empty files), "tiny" (only .info and .mod), "nomod" (no .mod)
Files(m, l) ==
  LET sh == Fam[m].shape IN
  <<F(S_dotinfo, InfoOf(m, l))>>
  \o (IF sh = "nomod" THEN <<>> ELSE <<F(S_dotmod, ModOf(m, l))>>)
  \o (IF sh = "tiny" THEN <<>>
      ELSE <<F(S_gomod, ModOf(m, l)), F(S_hidden, S_h), F(S_xgo, S_pkgx \o S_layoutcomment \o Digits(LayoutIdx(l)) \o <<NL>>),
             F(S_ygo, S_pkgdir), F(S_keep, <<>>), F(S_nested, S_h), F(S_gitcfg, S_core)>>
           \o (IF l = "dir" THEN <<F(S_bin, <<0, 255, 1>>)>> ELSE <<>>))

Items == {[mv |-> m, layout |-> l] : m \in 1..N, l \in Range(Layouts)}
Stored(store) == {it.mv : it \in store}
Pref(store, m) == Layouts[Min({LayoutIdx(it.layout) : it \in {x \in store : x.mv = m}})]

----------------------------------------------------------------------------
\* responses (uniformly typed)
NotFound == [status |-> 404, kind |-> "none", body |-> <<>>, zip |-> <<>>, list |-> <<>>]
Bytes(b) == [status |-> 200, kind |-> "bytes", body |-> b, zip |-> <<>>, list |-> <<>>]
Zip(fs) == [status |-> 200, kind |-> "zip", body |-> <<>>, zip |-> fs, list |-> <<>>]
List(vs) == [status |-> 200, kind |-> "list", body |-> <<>>, zip |-> <<>>, list |-> vs]

FileNamed(fs, n) == LET I == {i \in 1..Len(fs) : fs[i].name = n} IN IF I = {} THEN 0 ELSE Min(I)
NotDot(f) == ~(f.name # <<>> /\ f.name[1] = DOT)
ZipOf(path, vers, fs) ==
  LET keep == IF Bug = "ZipDotFiles" THEN fs ELSE SelectSeq(fs, NotDot) IN
  [i \in 1..Len(keep) |-> F(path \o <<AT>> \o vers \o <<SLASH>> \o keep[i].name, keep[i].data)]
\* the answer for extension ext given the files of the archive
Answer(path, vers, ext, fs) ==
  IF ext \in {S_info, S_mod}
  THEN LET i == FileNamed(fs, <<DOT>> \o ext) IN IF i = 0 THEN NotFound ELSE Bytes(fs[i].data)
  ELSE IF ext = S_zip THEN Zip(ZipOf(path, vers, fs))
  ELSE NotFound

----------------------------------------------------------------------------
\* L1: the statement.  Requests: [kind, path, vers, ext, raw]
\*   kind "list": path          kind "file": path, vers (bytes), ext
\*   kind "rev":  path, vers = lower-case hex revision, ext      kind "raw": raw URL path, expected 404
HashOfL1(m) == IF IsPseudo(Fam[m].ver) THEN HashPart(Fam[m].ver.pre[Len(Fam[m].ver.pre)]) ELSE Fam[m].short
Abbrev(hash, rev) == hash # <<>> /\ (HasPrefix(hash, rev) \/ HasPrefix(rev, hash))
GreatestOf(M) == CHOOSE m \in M : \A o \in M : ~VerLess(Fam[m].ver, Fam[o].ver)
FileL1(store, path, vers, ext) ==
  LET M == {m \in Stored(store) : Fam[m].path = path /\ VerStr(Fam[m].ver) = vers} IN
  IF M = {} THEN NotFound
  ELSE LET m == CHOOSE x \in M : TRUE IN Answer(path, vers, ext, Files(m, Pref(store, m)))
RespL1(store, r) ==
  IF r.kind = "list"
  THEN LET vs == {VerStr(Fam[m].ver) : m \in {x \in Stored(store) :
                     Fam[x].path = r.path /\ ~IsPseudo(Fam[x].ver) /\ Valid(Fam[x].path, Fam[x].ver)}} IN
       IF vs = {} THEN [status |-> 404, set |-> {}] ELSE [status |-> 200, set |-> vs]
  ELSE IF r.kind = "file" THEN FileL1(store, r.path, r.vers, r.ext)
  ELSE IF r.kind = "rev"
  THEN LET M == {m \in Stored(store) : Fam[m].path = r.path /\ Abbrev(HashOfL1(m), r.vers)} IN
       IF M = {} THEN FileL1(store, r.path, r.vers, r.ext)
       ELSE FileL1(store, r.path, VerStr(Fam[GreatestOf(M)].ver), r.ext)
  ELSE NotFound

Url(r) == IF r.kind = "raw" THEN r.raw
          ELSE S_modroot \o Escape(r.path) \o S_atv
               \o (IF r.kind = "list" THEN S_list ELSE Escape(r.vers) \o <<DOT>> \o r.ext)

----------------------------------------------------------------------------
\* L2: the code.  Directory = sequence of entries [name, isdir, files] sorted by name.
EntryName(m, l) == Replace(Escape(Fam[m].path), SLASH, USCORE) \o <<USCORE>> \o Escape(VerStr(Fam[m].ver))
                   \o (IF l = "txtar" THEN S_txtar ELSE IF l = "txt" THEN S_txt ELSE <<>>)
Strays == {[name |-> S_README, isdir |-> FALSE, files |-> <<>>],
           [name |-> S_notes, isdir |-> FALSE, files |-> <<>>],
           [name |-> S_tmp, isdir |-> TRUE, files |-> <<F(S_xgo, S_pkgx)>>]}
RECURSIVE SortEntries(_)
SortEntries(S) == IF S = {} THEN <<>>
                  ELSE LET m == CHOOSE x \in S : \A y \in S : y = x \/ LexLess(x.name, y.name) IN
                       <<m>> \o SortEntries(S \ {m})
DirOf(store) == SortEntries(Strays \cup {[name |-> EntryName(it.mv, it.layout), isdir |-> it.layout = "dir",
                                          files |-> Files(it.mv, it.layout)] : it \in store})

\* readModList
NoMod == [ok |-> FALSE, path |-> <<>>, vers |-> <<>>]
Decode(e) ==
  LET base == IF HasSuffix(e.name, S_txt) THEN [ok |-> TRUE, s |-> TrimSuffix(e.name, S_txt)]
              ELSE IF HasSuffix(e.name, S_txtar) THEN [ok |-> TRUE, s |-> TrimSuffix(e.name, S_txtar)]
              ELSE IF e.isdir THEN [ok |-> TRUE, s |-> e.name] ELSE Fail IN
  IF ~base.ok THEN NoMod
  ELSE LET i == IF Bug = "FirstIndexV" THEN Index(base.s, S_uv) ELSE LastIndex(base.s, S_uv) IN
       IF i = 0 THEN NoMod
       ELSE LET p == Unescape(Replace(SubSeq(base.s, 1, i - 1), USCORE, SLASH))
                v == Unescape(SubSeq(base.s, i + 1, Len(base.s))) IN
            \* (the real server refuses to start on an undecodable name; none is generated)
            IF p.ok /\ v.ok THEN [ok |-> TRUE, path |-> p.s, vers |-> v.s] ELSE NoMod
IsMod(x) == x.ok
ModList(dir) == SelectSeq([i \in 1..Len(dir) |-> Decode(dir[i])], IsMod)

\* version bytes -> structured version (semver parsing is x/mod's; every stored version is in Fam)
KnownVer(vs) == \E m \in 1..N : VerStr(Fam[m].ver) = vs
Parse(vs) == Fam[CHOOSE m \in 1..N : VerStr(Fam[m].ver) = vs].ver

\* readArchive (nil = NoArchive)
NoArchive == [ok |-> FALSE, files |-> <<>>]
EntryAt(dir, name, isdir) == LET I == {i \in 1..Len(dir) : dir[i].name = name /\ dir[i].isdir = isdir} IN
                             IF I = {} THEN 0 ELSE Min(I)
ReadArchive(dir, path, vers) ==
  IF \E i \in 1..Len(vers) : vers[i] = BANG THEN NoArchive           \* EscapeVersion refuses '!'
  ELSE LET enc == IF Bug = "NoEscape" THEN path ELSE Escape(path)
           name == Replace(enc, SLASH, USCORE) \o <<USCORE>> \o Escape(vers)
           a == EntryAt(dir, name \o S_txtar, FALSE)
           b == EntryAt(dir, name \o S_txt, FALSE)
           c == EntryAt(dir, name, TRUE) IN
       IF a # 0 THEN [ok |-> TRUE, files |-> dir[a].files]
       ELSE IF b # 0 THEN [ok |-> TRUE, files |-> dir[b].files]
       ELSE IF c # 0 THEN [ok |-> TRUE, files |-> dir[c].files]
       ELSE NoArchive

\* "Short" of the .info file of the archive (encoding/json is not modelled: the family table knows it)
FindHash(dir, mod) ==
  LET a == ReadArchive(dir, mod.path, mod.vers) IN
  IF ~a.ok \/ FileNamed(a.files, S_dotinfo) = 0 THEN <<>>
  ELSE Fam[CHOOSE m \in 1..N : Fam[m].path = mod.path /\ VerStr(Fam[m].ver) = mod.vers].short
\* m.Version[strings.LastIndex(m.Version, "-")+1:]
AfterLastDash(vs) == SubSeq(vs, LastIndex(vs, <<DASH>>) + 1, Len(vs))
HashMatches(hash, rev) == (Bug = "EmptyHashMatchesAll" \/ hash # <<>>) /\ (HasPrefix(hash, rev) \/ HasPrefix(rev, hash))
\* best: <<>> = "" (smaller than every valid version)
RECURSIVE ResolveFrom(_, _, _, _, _, _)
ResolveFrom(dir, ml, i, path, rev, best) ==
  IF i > Len(ml) THEN best
  ELSE LET m == ml[i] IN
       IF m.path = path /\ KnownVer(m.vers) /\ (best = <<>> \/ VerLess(Parse(best), Parse(m.vers)))
       THEN LET hash == IF IsPseudo(Parse(m.vers)) THEN AfterLastDash(m.vers) ELSE FindHash(dir, m) IN
            ResolveFrom(dir, ml, i + 1, path, rev, IF HashMatches(hash, rev) THEN m.vers ELSE best)
       ELSE ResolveFrom(dir, ml, i + 1, path, rev, best)

Handler(dir, url) ==
  IF ~HasPrefix(url, S_modroot) THEN NotFound
  ELSE LET p == TrimPrefix(url, S_modroot)  i == Index(p, S_atv) IN
  IF i = 0 THEN NotFound
  ELSE LET enc == SubSeq(p, 1, i - 1)
           file == SubSeq(p, i + Len(S_atv), Len(p))
           up == Unescape(enc) IN
  IF ~up.ok THEN NotFound
  ELSE LET path == up.s  ml == ModList(dir) IN
  IF file = S_list
  THEN LET Listed(m) == /\ m.path = path /\ KnownVer(m.vers)
                        /\ (Bug = "ListPseudo" \/ ~IsPseudo(Parse(m.vers))) /\ Valid(m.path, Parse(m.vers))
           vs == SelectSeq(ml, Listed) IN
       IF vs = <<>> THEN NotFound ELSE List([k \in 1..Len(vs) |-> vs[k].vers])
  ELSE LET j == LastIndex(file, <<DOT>>) IN
  IF j = 0 THEN NotFound
  ELSE LET ext == SubSeq(file, j + 1, Len(file))
           uv == Unescape(SubSeq(file, 1, j - 1)) IN
  IF ~uv.ok THEN NotFound
  ELSE LET best == IF AllHex(uv.s) THEN ResolveFrom(dir, ml, 1, path, uv.s, <<>>) ELSE <<>>
           vers == IF best # <<>> THEN best ELSE uv.s
           a == ReadArchive(dir, path, vers) IN
  IF ~a.ok THEN NotFound ELSE Answer(path, vers, ext, a.files)

----------------------------------------------------------------------------
\* agreement of a code-shaped response with a statement-shaped one
Agree(l2, l1, r) ==
  IF r.kind = "list" THEN l2.status = l1.status /\ Range(l2.list) = l1.set /\ l2.kind \in {"list", "none"}
  ELSE l2 = l1
=============================================================================
