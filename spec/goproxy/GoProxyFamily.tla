--------------------------- MODULE GoProxyFamily ---------------------------
(***************************************************************************)
(* The family of module versions, layouts and requests over which C20 is   *)
(* explored (shared by the generator MC_GoProxy and the trace validator    *)
(* Trace_GoProxy).  cfg: Fam <- MCFam.                                      *)
(***************************************************************************)
EXTENDS GoProxy

V(maj, min, pat, pre, build) == [maj |-> maj, min |-> min, pat |-> pat, pre |-> pre, build |-> build]
MV(p, v, short, shape) == [path |-> p, ver |-> v, short |-> short, shape |-> shape]
None == <<>>
MCFam == <<
  MV(P_m,   V(1, 0, 0, None, None),                                     H_abc,  "full"),   \* 1
  MV(P_m,   V(1, 1, 0, <<I_pre>>, None),                                H_012,  "full"),   \* 2
  MV(P_m,   V(2, 0, 0, None, S_incompatible),                           H_fed,  "full"),   \* 3
  MV(P_m,   V(0, 0, 0, <<T_2018 \o <<DASH>> \o H_abc>>, None),          None,   "full"),   \* 4 pseudo
  MV(P_m,   V(2, 0, 0, None, None),                                     H_abc9, "tiny"),   \* 5 not valid for this path
  MV(P_m,   V(1, 0, 0, <<I_Alpha, I_1>>, None),                         H_abc9, "full"),   \* 6 upper case in the version
  MV(P_Mv2, V(2, 0, 0, None, None),                                     H_abc,  "full"),   \* 7 upper case in the path
  MV(P_Mv2, V(2, 0, 1, <<I_0, T_2019 \o <<DASH>> \o H_012>>, None),     None,   "full"),   \* 8 pseudo
  MV(P_Mv2, V(1, 0, 0, None, None),                                     H_fed,  "nomod"),  \* 9 not valid for this path
  MV(P_sub, V(0, 1, 0, None, None),                                     None,   "tiny"),   \* 10 .info without Short
  MV(P_m,   V(2, 0, 1, <<I_0, T_2019 \o <<DASH>> \o H_012>>, S_incompatible), None, "tiny")   \* 11 pseudo and +incompatible: still a pseudo-version
>>

R(kind, path, vers, ext, raw) == [kind |-> kind, path |-> path, vers |-> vers, ext |-> ext, raw |-> raw]
FileReq(p, v, e) == R("file", p, v, e, <<>>)
RevReq(p, v, e) == R("rev", p, v, e, <<>>)
ListReq(p) == R("list", p, <<>>, <<>>, <<>>)
Raw(u) == R("raw", <<>>, <<>>, <<>>, u)
Exts == <<S_info, S_mod, S_zip>>
Paths == <<P_m, P_Mv2, P_sub>>
Revs == <<R_abcdef, R_abclong, R_0123, R_dead, H_fed>>
S_v100 == VerStr(V(1, 0, 0, None, None))
Reqs ==
  <<ListReq(P_m), ListReq(P_Mv2), ListReq(P_sub), ListReq(P_other)>>
  \o Flat([m \in 1..Len(MCFam) |-> [e \in 1..3 |-> FileReq(MCFam[m].path, VerStr(MCFam[m].ver), Exts[e])]])
  \o <<FileReq(P_m, S_v999, S_info), FileReq(P_other, S_v100, S_info), FileReq(P_sub, S_v100, S_zip),
       FileReq(P_m, S_v100, TrimPrefix(S_txt, <<DOT>>)), FileReq(P_m, S_v100, S_ziphash)>>
  \o Flat([p \in 1..3 |-> [r \in 1..Len(Revs) |-> RevReq(Paths[p], Revs[r], S_info)]])
  \o <<RevReq(P_m, R_abcdef, S_zip), RevReq(P_Mv2, R_0123, S_mod)>>
  \o <<Raw(S_modroot \o P_Mv2 \o S_atv \o S_list),                         \* upper case not escaped
       Raw(S_modroot \o S_bangonly \o S_atv \o S_list),                    \* '!' at the end
       Raw(S_modroot \o S_bangup \o S_atv \o S_list),                      \* '!' before upper case
       Raw(S_otherroot),                                                   \* not under /mod/
       Raw(S_modroot \o P_m),                                              \* no /@v/
       Raw(S_modroot \o P_m \o S_latest),
       Raw(S_modroot \o P_m \o S_atv \o S_Vbad \o <<DOT>> \o S_info),      \* version not escaped
       Raw(S_modroot \o P_m \o S_atv \o <<DOT>> \o S_info),                \* empty version
       Raw(S_modroot \o P_m \o S_atv \o S_info),                           \* no '.'
       Raw(S_modroot \o S_atv \o S_list)>>                                 \* empty path
NReq == Len(Reqs)

ItemIdx(it) == (it.mv - 1) * 3 + LayoutIdx(it.layout)
NItems == N * 3
ItemAt(k) == [mv |-> ((k - 1) \div 3) + 1, layout |-> Layouts[((k - 1) % 3) + 1]]
=============================================================================
