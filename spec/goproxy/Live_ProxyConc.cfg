SPECIFICATION MCFairSpec
CONSTANTS
  Clients <- MCClients
  Bug = "none"
PROPERTIES Termination
CHECK_DEADLOCK FALSE
