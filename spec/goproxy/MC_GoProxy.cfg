SPECIFICATION Spec
CONSTANTS
  Fam <- MCFam
  Bug = "none"
  MaxItems = 2
  Stride = 1
  Seed = 1
  Emit = TRUE
INVARIANTS InvL1L2 InvDecode InvEscape InvServed InvZip InvList InvNotStored
CHECK_DEADLOCK FALSE
