----------------------------- MODULE MC_GoProxy ----------------------------
(***************************************************************************)
(* Generator and law checker for goproxytest (C20).                        *)
(*                                                                         *)
(* States = stores: every set of <= MaxItems items [module version,        *)
(* layout] over the family MCFam x {txtar, txt, dir} (sets of exactly      *)
(* MaxItems items are thinned by Stride / Seed when Stride > 1).  pred is  *)
(* the code-shaped response (Handler on the directory listing) to every    *)
(* request of Reqs.  In every state TLC checks                             *)
(*   InvL1L2      Handler(DirOf(store), Url(r)) agrees with the statement- *)
(*                shaped RespL1(store, r) for every request r              *)
(*   InvDecode    readModList recovers exactly the stored (path, version)  *)
(*                pairs from the entry names (case escaping, last "_v")    *)
(*   InvEscape    Unescape(Escape(s)) = s, escaped text has no upper case  *)
(*   InvServed    .info / .mod of a stored version = the stored bytes of   *)
(*                its preferred layout                                     *)
(*   InvZip       zip = exactly the stored files not starting with '.',    *)
(*                once each, under path@version/, same data                *)
(*   InvList      list = the valid non-pseudo stored versions of the path  *)
(*   InvNotStored file requests for (path, version) not stored, unknown    *)
(*                extensions and malformed URLs give 404                   *)
(* and every transition emits the store (directory entries with their      *)
(* files) and pred: the cases replayed into the real server.               *)
(***************************************************************************)
EXTENDS GoProxyFamily, Json

CONSTANTS MaxItems, Stride, Seed, Emit

Key(S) == LET RECURSIVE K(_)
              K(T) == IF T = {} THEN 0 ELSE LET x == Max(T) IN x + 31 * K(T \ {x})
          IN K({ItemIdx(it) : it \in S})
\* (IF, not \/: TLC would take every true disjunct of an action as a separate successor)
Selected(S) == IF Cardinality(S) < MaxItems THEN TRUE ELSE IF Stride <= 1 THEN TRUE ELSE (Key(S) + Seed) % Stride = 0

VARIABLES store, pred
vars == <<store, pred>>

Preds(s) == LET d == DirOf(s) IN [i \in 1..NReq |-> Handler(d, Url(Reqs[i]))]

Header == [kind |-> "hdr",
           fam |-> [m \in 1..N |-> [path |-> Fam[m].path, vers |-> VerStr(Fam[m].ver), pseudo |-> IsPseudo(Fam[m].ver),
                                    valid |-> Valid(Fam[m].path, Fam[m].ver), short |-> Fam[m].short,
                                    less |-> [o \in 1..N |-> VerLess(Fam[m].ver, Fam[o].ver)]]],
           reqs |-> [i \in 1..NReq |-> [kind |-> Reqs[i].kind, url |-> Url(Reqs[i]), path |-> Reqs[i].path,
                                        vers |-> Reqs[i].vers, ext |-> Reqs[i].ext]]]
Case(s, p) == [kind |-> "store", key |-> Key(s), items |-> SortEntries({[name |-> <<ItemIdx(it)>>, mv |-> it.mv, layout |-> it.layout] : it \in s}),
               entries |-> DirOf(s), pred |-> p]
EmitCase(s, p) == IF Emit THEN PrintT(<<"EMIT", ToJson(Case(s, p))>>) ELSE TRUE

Init == /\ store = {} /\ pred = Preds({})
        /\ (IF Emit THEN PrintT(<<"EMIT", ToJson(Header)>>) ELSE TRUE)
        /\ EmitCase({}, Preds({}))
Next == /\ Cardinality(store) < MaxItems
        /\ \E k \in 1..NItems :
             /\ \A it \in store : ItemIdx(it) < k
             /\ Selected(store \cup {ItemAt(k)})
             /\ store' = store \cup {ItemAt(k)}
             /\ pred' = Preds(store')
             /\ EmitCase(store', pred')
Spec == Init /\ [][Next]_vars

----------------------------------------------------------------------------
InvL1L2 == \A i \in 1..NReq : Agree(pred[i], RespL1(store, Reqs[i]), Reqs[i])

InvDecode == LET ml == ModList(DirOf(store)) IN
             /\ Len(ml) = Cardinality(store)
             /\ {<<ml[i].path, ml[i].vers>> : i \in 1..Len(ml)} = {<<Fam[m].path, VerStr(Fam[m].ver)>> : m \in Stored(store)}

NoUpper(s) == \A i \in 1..Len(s) : ~IsUpper(s[i])
InvEscape == \A m \in 1..N : \A s \in {Fam[m].path, VerStr(Fam[m].ver)} :
                /\ Unescape(Escape(s)) = [ok |-> TRUE, s |-> s]
                /\ NoUpper(Escape(s))

\* index of the request for (m, ext)
ReqOf(m, e) == 4 + (m - 1) * 3 + e
StoredFile(m, n) == LET fs == Files(m, Pref(store, m))  i == FileNamed(fs, n) IN
                    IF i = 0 THEN NotFound ELSE Bytes(fs[i].data)
InvServed == \A m \in Stored(store) : /\ pred[ReqOf(m, 1)] = StoredFile(m, S_dotinfo)
                                      /\ pred[ReqOf(m, 2)] = StoredFile(m, S_dotmod)

InvZip == \A m \in Stored(store) :
  LET z == pred[ReqOf(m, 3)]
      fs == Files(m, Pref(store, m))
      prefix == Fam[m].path \o <<AT>> \o VerStr(Fam[m].ver) \o <<SLASH>>
      want == {F(prefix \o fs[i].name, fs[i].data) : i \in {j \in 1..Len(fs) : fs[j].name[1] # DOT}} IN
  /\ z.status = 200 /\ z.kind = "zip"
  /\ Range(z.zip) = want
  /\ Len(z.zip) = Cardinality(want)

InvList == \A i \in 1..4 :
  LET p == Reqs[i].path
      want == {VerStr(Fam[m].ver) : m \in {x \in Stored(store) : Fam[x].path = p /\ ~IsPseudo(Fam[x].ver) /\ Valid(p, Fam[x].ver)}} IN
  IF want = {} THEN pred[i].status = 404 ELSE pred[i].status = 200 /\ Range(pred[i].list) = want

InvNotStored == \A i \in 1..NReq :
  LET r == Reqs[i] IN
  \/ r.kind = "raw" /\ pred[i] = NotFound
  \/ r.kind = "file" /\ (\/ \E m \in Stored(store) : Fam[m].path = r.path /\ VerStr(Fam[m].ver) = r.vers /\ r.ext \in Range(Exts)
                         \/ pred[i] = NotFound)
  \/ r.kind \in {"list", "rev"}
=============================================================================
