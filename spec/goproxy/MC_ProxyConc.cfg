SPECIFICATION MCSpec
CONSTANTS
  Clients <- MCClients
  Bug = "none"
INVARIANTS RespSequential OncePerKey PublishedOK NoStuck
CHECK_DEADLOCK FALSE
