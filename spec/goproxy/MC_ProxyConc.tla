---------------------------- MODULE MC_ProxyConc ---------------------------
(* three clients racing on first requests against a fresh server: every      *)
(* assignment of the six request kinds to the clients, every interleaving    *)
EXTENDS ProxyConc
MCClients == {"c1", "c2", "c3"}
\* the clients are interchangeable: explore one representative per multiset of requests
Rank(r) == CASE r = "infoA" -> 1 [] r = "zipA" -> 2 [] r = "zipB" -> 3 [] r = "infoC" -> 4 [] r = "zipC" -> 5 [] r = "revA" -> 6
Ordered == Rank(prog["c1"]) <= Rank(prog["c2"]) /\ Rank(prog["c2"]) <= Rank(prog["c3"])
MCInit == Init /\ Ordered
MCSpec == MCInit /\ [][Next]_vars
MCFairSpec == MCSpec /\ WF_vars(Next)
=============================================================================
