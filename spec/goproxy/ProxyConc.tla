----------------------------- MODULE ProxyConc -----------------------------
(***************************************************************************)
(* goproxytest (C20), last sentence of the statement: "Responses are the   *)
(* same under any number of concurrent requests."                          *)
(*                                                                         *)
(* A fresh server, every client issues one first request at once.  A       *)
(* handler is a chain of par.Cache.Do calls (archiveCache keyed by the     *)
(* archive name, zipCache keyed by the parsed archive) around pure         *)
(* functions of the directory, followed by the response:                   *)
(*   info k   : a = archiveCache.Do(k);  404 if nil, else info(a)          *)
(*   zip k    : a = archiveCache.Do(k);  404 if nil, else zipCache.Do(a)   *)
(*   rev ...  : findHash = archiveCache.Do on every candidate in modList   *)
(*              order, then as info on the resolved key                    *)
(* par.Cache.Do is modelled with the step structure of par/work.go (the    *)
(* same steps as spec/parcache/ParCache.tla): sync.Map load, LoadOrStore,  *)
(* atomic load of done, Lock, second load of done, f, store result + done, *)
(* Unlock.  TLC explores every interleaving and checks that every response *)
(* equals the sequential Response (SeqResp), that the directory is read    *)
(* and the zip built at most once per key, and (Live cfg) that every       *)
(* request is answered.                                                    *)
(***************************************************************************)
EXTENDS Naturals, Sequences, FiniteSets, TLC

CONSTANTS Clients, Bug        \* Bug: "none" | "DoneBeforeResult" | "NoLock" | "NoSecondCheck"

Nil == "nil"
Keys == {"A", "B", "C"}
Disk == [k \in Keys |-> IF k = "C" THEN Nil ELSE "arch:" \o k]      \* C is not stored
ReqKinds == {"infoA", "zipA", "zipB", "infoC", "zipC", "revA"}
ArchSeq(r) == CASE r = "infoA" -> <<"A">> [] r = "zipA" -> <<"A">> [] r = "zipB" -> <<"B">>
                [] r = "infoC" -> <<"C">> [] r = "zipC" -> <<"C">> [] r = "revA" -> <<"A", "B", "A">>
WantsZip(r) == r \in {"zipA", "zipB", "zipC"}

\* cache keys: <<cache, key>>
CK == {<<"arch", k>> : k \in Keys} \cup {<<"zip", Disk[k]>> : k \in {x \in Keys : Disk[x] # Nil}}
Fn(ck) == IF ck[1] = "arch" THEN Disk[ck[2]] ELSE "zip:" \o ck[2]

\* the sequential server
SeqResp(r) == LET a == Disk[ArchSeq(r)[Len(ArchSeq(r))]] IN
              IF a = Nil THEN "404" ELSE IF WantsZip(r) THEN "zip:" \o a ELSE "info:" \o a

VARIABLES prog, pc, ai, cur, resp, entry, done, result, mu, fcalls
vars == <<prog, pc, ai, cur, resp, entry, done, result, mu, fcalls>>

Init == /\ prog \in [Clients -> ReqKinds]
        /\ pc = [c \in Clients |-> "start"] /\ ai = [c \in Clients |-> 0]
        /\ cur = [c \in Clients |-> <<"arch", "A">>] /\ resp = [c \in Clients |-> ""]
        /\ entry = [k \in CK |-> FALSE] /\ done = [k \in CK |-> FALSE]
        /\ result = [k \in CK |-> Nil] /\ mu = [k \in CK |-> "free"] /\ fcalls = [k \in CK |-> 0]

\* begin Do(ck)
Call(c, ck) == cur' = [cur EXCEPT ![c] = ck] /\ pc' = [pc EXCEPT ![c] = "d_load"]
Finish(c, r) == resp' = [resp EXCEPT ![c] = r] /\ pc' = [pc EXCEPT ![c] = "fin"] /\ UNCHANGED <<cur, ai>>
\* Do returned v: continue the handler
Return(c, v) ==
  LET r == prog[c] IN
  IF cur[c][1] = "zip" THEN Finish(c, v)
  ELSE IF ai[c] < Len(ArchSeq(r))
  THEN /\ ai' = [ai EXCEPT ![c] = @ + 1] /\ Call(c, <<"arch", ArchSeq(r)[ai[c] + 1]>>) /\ UNCHANGED resp
  ELSE IF v = Nil THEN Finish(c, "404")
  ELSE IF WantsZip(r) THEN Call(c, <<"zip", v>>) /\ UNCHANGED <<ai, resp>>
  ELSE Finish(c, "info:" \o v)

Start(c) == /\ pc[c] = "start"
            /\ ai' = [ai EXCEPT ![c] = 1] /\ Call(c, <<"arch", ArchSeq(prog[c])[1]>>)
            /\ UNCHANGED <<resp, entry, done, result, mu, fcalls>>
Goto(c, l) == pc' = [pc EXCEPT ![c] = l] /\ UNCHANGED <<cur, ai, resp>>
DLoad(c) == /\ pc[c] = "d_load" /\ Goto(c, IF entry[cur[c]] THEN "d_done1" ELSE "d_los")
            /\ UNCHANGED <<entry, done, result, mu, fcalls>>
DLos(c) == /\ pc[c] = "d_los" /\ entry' = [entry EXCEPT ![cur[c]] = TRUE] /\ Goto(c, "d_done1")
           /\ UNCHANGED <<done, result, mu, fcalls>>
DDone1(c) == /\ pc[c] = "d_done1"
             /\ IF done[cur[c]] THEN Return(c, result[cur[c]])
                ELSE Goto(c, IF Bug = "NoLock" THEN "d_done2" ELSE "d_lock")
             /\ UNCHANGED <<entry, done, result, mu, fcalls>>
DLock(c) == /\ pc[c] = "d_lock" /\ mu[cur[c]] = "free"
            /\ mu' = [mu EXCEPT ![cur[c]] = c] /\ Goto(c, "d_done2")
            /\ UNCHANGED <<entry, done, result, fcalls>>
Unlock(k) == mu' = [mu EXCEPT ![k] = "free"]
DDone2(c) == /\ pc[c] = "d_done2"
             /\ LET k == cur[c] IN
                IF done[k] /\ Bug # "NoSecondCheck"
                THEN Unlock(k) /\ Return(c, result[k]) /\ UNCHANGED <<fcalls, done>>
                ELSE /\ fcalls' = [fcalls EXCEPT ![k] = @ + 1]
                     /\ done' = IF Bug = "DoneBeforeResult" THEN [done EXCEPT ![k] = TRUE] ELSE done
                     /\ Goto(c, "d_f") /\ UNCHANGED mu
             /\ UNCHANGED <<entry, result>>
DF(c) == /\ pc[c] = "d_f"                                  \* f: read the directory / build the zip
         /\ result' = [result EXCEPT ![cur[c]] = Fn(cur[c])]
         /\ Goto(c, "d_store") /\ UNCHANGED <<entry, done, mu, fcalls>>
DStore(c) == /\ pc[c] = "d_store"
             /\ done' = [done EXCEPT ![cur[c]] = TRUE] /\ Unlock(cur[c])
             /\ Return(c, result[cur[c]])
             /\ UNCHANGED <<entry, result, fcalls>>

Step(c) == /\ UNCHANGED prog
           /\ (Start(c) \/ DLoad(c) \/ DLos(c) \/ DDone1(c) \/ DLock(c) \/ DDone2(c) \/ DF(c) \/ DStore(c))
Next == \E c \in Clients : Step(c)
Spec == Init /\ [][Next]_vars
FairSpec == Spec /\ WF_vars(Next)

----------------------------------------------------------------------------
\* every answer is the sequential answer, whatever the interleaving
RespSequential == \A c \in Clients : pc[c] = "fin" => resp[c] = SeqResp(prog[c])
\* the directory is read / the zip is built at most once per key
OncePerKey == \A k \in CK : fcalls[k] <= 1
\* a published result is the value of the pure function
PublishedOK == \A k \in CK : done[k] => result[k] = Fn(k)
\* nobody waits for a lock that is never released
NoStuck == (\A c \in Clients : pc[c] = "fin" \/ (pc[c] = "d_lock" /\ mu[cur[c]] # "free"))
              => (\A c \in Clients : pc[c] = "fin")
Termination == <>(\A c \in Clients : pc[c] = "fin")
=============================================================================
