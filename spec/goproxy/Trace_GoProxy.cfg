SPECIFICATION Spec
CONSTANTS
  Fam <- MCFam
  Bug = "none"
  Lanes = 16
INVARIANTS RecShape RecFixed RecRev RecSame
CHECK_DEADLOCK FALSE
