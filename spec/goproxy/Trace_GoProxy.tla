---------------------------- MODULE Trace_GoProxy --------------------------
(***************************************************************************)
(* Validation of what the real server answered under concurrency.          *)
(*                                                                         *)
(* trace.ndjson: one record per fresh server,                              *)
(*   [key, items: <<[mv, layout]>>, obs: <<..>>]                           *)
(* obs[i] = the DISTINCT responses the concurrent clients received for     *)
(* request Reqs[i], each [status, kind, body, zip, list] (zip and list as  *)
(* parsed by the driver).  The statement says that every one of them is    *)
(* the response of the sequential server: Allowed(store, Reqs[i], o) is    *)
(* the statement-shaped RespL1 made as permissive as the statement is      *)
(* (which stored layout of a version is served, order of zip entries and   *)
(* list lines; a commit-hash request may also be answered 404 or with any  *)
(* stored version whose known hash it abbreviates or extends).             *)
(* Invariants only print BAD lines (BUILDING.md): the lines are the        *)
(* verdict.  RecRev is separate so that the hash-resolution findings can   *)
(* be told from the rest.                                                  *)
(***************************************************************************)
EXTENDS GoProxyFamily, Json

CONSTANTS Lanes
Trace == ndJsonDeserialize("trace.ndjson")

VARIABLE i
Init == i \in 1..Lanes
Next == i + Lanes <= Len(Trace) /\ i' = i + Lanes
Spec == Init /\ [][Next]_i

StoreOf(rec) == {[mv |-> rec.items[k].mv, layout |-> rec.items[k].layout] : k \in 1..Len(rec.items)}

SameResp(o, a) == /\ o.status = a.status /\ o.kind = a.kind /\ o.body = a.body
                  /\ Len(o.zip) = Len(a.zip) /\ Range(o.zip) = Range(a.zip)
\* some stored layout of module version m answers o
AnyLayout(store, m, path, vers, ext, o) ==
  \E it \in store : it.mv = m /\ SameResp(o, Answer(path, vers, ext, Files(m, it.layout)))
Allowed(store, r, o) ==
  IF r.kind = "list"
  THEN LET l1 == RespL1(store, r) IN
       o.status = l1.status /\ (o.status = 404 \/ (o.kind = "list" /\ Range(o.list) = l1.set))
  ELSE IF r.kind = "raw" THEN o = NotFound
  ELSE IF r.kind = "file"
  THEN LET M == {m \in Stored(store) : Fam[m].path = r.path /\ VerStr(Fam[m].ver) = r.vers} IN
       IF M = {} \/ r.ext \notin Range(Exts) THEN o = NotFound
       ELSE \E m \in M : AnyLayout(store, m, r.path, r.vers, r.ext, o)
  ELSE \* "rev"
       \/ o = NotFound
       \/ \E m \in Stored(store) : /\ Fam[m].path = r.path /\ Abbrev(HashOfL1(m), r.vers)
                                   /\ AnyLayout(store, m, r.path, VerStr(Fam[m].ver), r.ext, o)

InTrace == i <= Len(Trace)
RecOf == Trace[i]
RecShape == InTrace => (Len(RecOf.obs) = NReq \/ PrintT(<<"BAD", "RecShape", i>>))
RecFixed == InTrace => LET st == StoreOf(RecOf) IN
  \A k \in 1..NReq : Reqs[k].kind = "rev" \/ \A j \in 1..Len(RecOf.obs[k]) :
      Allowed(st, Reqs[k], RecOf.obs[k][j]) \/ PrintT(<<"BAD", "RecFixed", i>>)
RecRev == InTrace => LET st == StoreOf(RecOf) IN
  \A k \in 1..NReq : Reqs[k].kind # "rev" \/ \A j \in 1..Len(RecOf.obs[k]) :
      Allowed(st, Reqs[k], RecOf.obs[k][j]) \/ PrintT(<<"BAD", "RecRev", i>>)
\* one response per request: all concurrent clients were told the same
RecSame == InTrace => \A k \in 1..NReq : Len(RecOf.obs[k]) <= 1 \/ PrintT(<<"BAD", "RecSame", i>>)
=============================================================================
