\* default configuration (small); checks/c18.py writes the per-tier profiles with cfg_text
SPECIFICATION Spec
CONSTANTS
  Bug = "SemiNotSpace"
  Emit = FALSE
  SepToks = {"SP", "LF", "SEMI", "LC", "BC"}
  PkgToks = {"PKG_P"}
  NameToks = {"DOT", "NAME"}
  StrToks = {"S_A", "S_RAW"}
  TailToks = {"T_FUNC"}
  EofToks = {"T_LC"}
  AllowBOM = TRUE
  MaxTok = 8
  MaxSep = 3
INVARIANTS InvCompleteFileReads InvImportsExact InvPrefix InvPrefixReparses InvReaderLaws InvIncompleteRejected
CHECK_DEADLOCK FALSE
