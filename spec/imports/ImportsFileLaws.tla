-------------------------- MODULE ImportsFileLaws --------------------------
(***************************************************************************)
(* C18: the statement's laws for syntactically valid Go files, between the *)
(* header grammar machine (what the file is) and the reference reader      *)
(* (what ReadImports must return).  r = Read(bytes), r2 = Read(r.out).     *)
(***************************************************************************)
EXTENDS ImportsGrammar, ImportsReader

\* a complete file is read without error
LawCompleteFileReads(r) == Accepting => r.err = "none"
\* the same import paths in the same order
LawImportsExact(r) == Accepting => r.imports = imps
\* a leading portion of the input (a byte-order mark aside) that covers the import
\* section and stops before the first other declaration
LawPrefix(r) == Accepting => /\ IsPrefixBOMAside(r.out, bytes)
                             /\ impEnd - BOMLen <= r.end
                             /\ r.end = ExpectedEnd
\* ... that still parses to those imports
LawPrefixReparses(r, r2) == Accepting => r2.err = "none" /\ r2.imports = imps
\* laws of the reader alone
LawReader(r, r2) == LawWellFormedR(r) /\ LawPrefixStableR(r, r2)
\* a header that is not complete is a syntax error
LawIncompleteRejected(r) == ~Accepting => r.err = "syntax"
=============================================================================
