-------------------------- MODULE ImportsGrammar ---------------------------
(***************************************************************************)
(* Generator machine for the header of a syntactically valid Go file       *)
(* (property C18).  A behaviour appends one token per step; the reachable  *)
(* accepting states are exactly the token sequences of                     *)
(*                                                                         *)
(*   [BOM] Sep* "package" Sep+ ident ";"                                   *)
(*         { "import" ( Spec | "(" { Spec ";" } ")" ) ";" }  [Tail]        *)
(*   Spec = [ ident | "." | "_" ] StringLit                                *)
(*                                                                         *)
(* with the Go rules for where a semicolon is required, may be written     *)
(* explicitly, is inserted by a newline (after an identifier, a string     *)
(* literal or a closing parenthesis; a line comment or a block comment     *)
(* holding a newline acts like a newline) and where it is forbidden (no    *)
(* empty declarations: ";;", "(;", "import;").  The machine knows, by      *)
(* construction, the import path literals of the file it has generated and *)
(* where the import section and the first other declaration lie; that is   *)
(* the prediction the real ReadImports and go/parser are compared with.    *)
(***************************************************************************)
EXTENDS Naturals, Sequences

CONSTANTS SepToks,      \* subset of {"SP","TAB","LF","CRLF","SEMI","LC","BC","BCQ","BCS","BCNL"}
          PkgToks,      \* subset of {"PKG_P","PKG_I","PKG_U"}
          NameToks,     \* subset of {"DOT","BLANK","NAME","NAMEI","NAMEU"}
          StrToks,      \* subset of {"S_A","S_RAW","S_ESC","S_LONG","S_C"}
          TailToks,     \* subset of {"T_VAR","T_FUNC","T_TYPE","T_CONST"} (first non-import declaration to end of file)
          EofToks,      \* subset of {"T_LC"} (a final line comment without newline)
          AllowBOM,     \* BOOLEAN
          MaxTok,       \* bound on the number of tokens
          MaxSep        \* bound on the number of separator tokens among them

TokBytes(t) ==
  CASE t = "BOM" -> <<239, 187, 191>>
    [] t = "SP" -> <<32>>
    [] t = "TAB" -> <<9>>
    [] t = "LF" -> <<10>>
    [] t = "CRLF" -> <<13, 10>>
    [] t = "SEMI" -> <<59>>
    \* // import "c" LF
    [] t = "LC" -> <<47, 47, 32, 105, 109, 112, 111, 114, 116, 32, 34, 99, 34, 10>>
    \* /* import "c" */
    [] t = "BC" -> <<47, 42, 32, 105, 109, 112, 111, 114, 116, 32, 34, 99, 34, 32, 42, 47>>
    \* /*`*/
    [] t = "BCQ" -> <<47, 42, 96, 42, 47>>
    \* /* * / **/
    [] t = "BCS" -> <<47, 42, 32, 42, 32, 47, 32, 42, 42, 47>>
    \* /* LF " */
    [] t = "BCNL" -> <<47, 42, 10, 34, 42, 47>>
    [] t = "PACKAGE" -> <<112, 97, 99, 107, 97, 103, 101>>
    [] t = "IMPORT" -> <<105, 109, 112, 111, 114, 116>>
    [] t = "LP" -> <<40>>
    [] t = "RP" -> <<41>>
    [] t = "PKG_P" -> <<112>>                  \* p
    [] t = "PKG_I" -> <<105, 109, 112>>        \* imp
    [] t = "PKG_U" -> <<195, 169>>             \* e-acute, UTF-8
    [] t = "DOT" -> <<46>>
    [] t = "BLANK" -> <<95>>
    [] t = "NAME" -> <<120>>                   \* x
    [] t = "NAMEI" -> <<105, 49>>              \* i1
    [] t = "NAMEU" -> <<195, 169>>
    [] t = "S_A" -> <<34, 97, 34>>             \* "a"
    [] t = "S_RAW" -> <<96, 98, 47, 99, 96>>   \* `b/c`
    [] t = "S_ESC" -> <<34, 92, 120, 54, 52, 34>>                 \* "\x64"
    [] t = "S_LONG" -> <<34, 101, 47, 102, 45, 103, 46, 104, 34>> \* "e/f-g.h"
    [] t = "S_C" -> <<34, 67, 34>>             \* "C"
    \* var s = "import \"q\"" LF
    [] t = "T_VAR" -> <<118, 97, 114, 32, 115, 32, 61, 32, 34, 105, 109, 112, 111, 114, 116, 32, 92, 34, 113, 92, 34, 34, 10>>
    \* func init() { _ = 'i' } LF
    [] t = "T_FUNC" -> <<102, 117, 110, 99, 32, 105, 110, 105, 116, 40, 41, 32, 123, 32, 95, 32, 61, 32, 39, 105, 39, 32, 125, 10>>
    \* type T int
    [] t = "T_TYPE" -> <<116, 121, 112, 101, 32, 84, 32, 105, 110, 116>>
    \* const c = `import "z"`
    [] t = "T_CONST" -> <<99, 111, 110, 115, 116, 32, 99, 32, 61, 32, 96, 105, 109, 112, 111, 114, 116, 32, 34, 122, 34, 96>>
    \* // import "w"      (no newline: only at the very end of a file)
    [] t = "T_LC" -> <<47, 47, 32, 105, 109, 112, 111, 114, 116, 32, 34, 119, 34>>

HasNL(t) == t \in {"LF", "CRLF", "LC", "BCNL"}     \* acts as a newline for semicolon insertion

VARIABLES toks,       \* the tokens generated so far
          bytes,      \* their rendering
          phase,      \* "start" | "pkgkw" | "top" | "impkw" | "name" | "group" | "done"
          pending,    \* a semicolon is still required before the next declaration / spec
          sepd,       \* a separator has been seen since the last keyword
          nlok,       \* in phase "name": a newline may follow (after ".", not after an identifier)
          ingroup,    \* inside "import ( ... )"
          imps,       \* the import path literals of the file, in order
          impEnd,     \* number of bytes up to the end of the last token of package clause / import section
          tailStart,  \* position of the first byte of the first non-import declaration, 0 if none
          nsep        \* separator tokens used

gvars == <<toks, bytes, phase, pending, sepd, nlok, ingroup, imps, impEnd, tailStart, nsep>>

GInit == /\ toks = <<>> /\ bytes = <<>> /\ phase = "start" /\ pending = FALSE /\ sepd = FALSE
         /\ nlok = FALSE /\ ingroup = FALSE /\ imps = <<>> /\ impEnd = 0 /\ tailStart = 0 /\ nsep = 0

Put(t) == toks' = Append(toks, t) /\ bytes' = bytes \o TokBytes(t)

ABom == /\ AllowBOM /\ phase = "start" /\ toks = <<>> /\ Put("BOM")
        /\ UNCHANGED <<phase, pending, sepd, nlok, ingroup, imps, impEnd, tailStart, nsep>>

\* separators: white space, comments and explicit semicolons, wherever Go allows them
ASep(t) ==
  /\ nsep < MaxSep /\ nsep' = nsep + 1
  /\ Put(t)
  /\ \/ /\ phase = "start" /\ t # "SEMI" /\ UNCHANGED <<pending, sepd>>
     \/ /\ phase \in {"pkgkw", "impkw"} /\ t # "SEMI" /\ sepd' = TRUE /\ UNCHANGED pending
     \/ /\ phase \in {"top", "group"} /\ (t = "SEMI" => pending)
        /\ pending' = IF HasNL(t) \/ t = "SEMI" THEN FALSE ELSE pending
        /\ UNCHANGED sepd
     \/ /\ phase = "name" /\ t # "SEMI" /\ (HasNL(t) => nlok) /\ UNCHANGED <<pending, sepd>>
  /\ UNCHANGED <<phase, nlok, ingroup, imps, impEnd, tailStart>>

APackage == /\ phase = "start" /\ Put("PACKAGE") /\ phase' = "pkgkw" /\ sepd' = FALSE
            /\ UNCHANGED <<pending, nlok, ingroup, imps, impEnd, tailStart, nsep>>

APkgName(t) == /\ phase = "pkgkw" /\ sepd /\ Put(t) /\ phase' = "top" /\ pending' = TRUE
               /\ impEnd' = Len(bytes')
               /\ UNCHANGED <<sepd, nlok, ingroup, imps, tailStart, nsep>>

AImport == /\ phase = "top" /\ ~pending /\ Put("IMPORT") /\ phase' = "impkw" /\ sepd' = FALSE
           /\ UNCHANGED <<pending, nlok, ingroup, imps, impEnd, tailStart, nsep>>

ALParen == /\ phase = "impkw" /\ Put("LP") /\ phase' = "group" /\ ingroup' = TRUE /\ pending' = FALSE
           /\ UNCHANGED <<sepd, nlok, imps, impEnd, tailStart, nsep>>

\* the optional local name of an import spec; an identifier must be separated from the keyword
AName(t) == /\ \/ phase = "impkw" /\ (IF t = "DOT" THEN TRUE ELSE sepd)
               \/ phase = "group" /\ ~pending
            /\ Put(t) /\ phase' = "name" /\ nlok' = (t = "DOT")
            /\ UNCHANGED <<pending, sepd, ingroup, imps, impEnd, tailStart, nsep>>

AString(t) == /\ \/ phase \in {"impkw", "name"}
                 \/ phase = "group" /\ ~pending
              /\ Put(t) /\ imps' = Append(imps, TokBytes(t))
              /\ phase' = IF ingroup THEN "group" ELSE "top"
              /\ pending' = TRUE /\ impEnd' = Len(bytes')
              /\ UNCHANGED <<sepd, nlok, ingroup, tailStart, nsep>>

ARParen == /\ phase = "group" /\ Put("RP") /\ phase' = "top" /\ ingroup' = FALSE /\ pending' = TRUE
           /\ impEnd' = Len(bytes')
           /\ UNCHANGED <<sepd, nlok, imps, tailStart, nsep>>

\* the first declaration that is not an import, up to the end of the file
ATail(t) == /\ phase = "top" /\ ~pending /\ Put(t) /\ phase' = "done" /\ tailStart' = Len(bytes) + 1
            /\ UNCHANGED <<pending, sepd, nlok, ingroup, imps, impEnd, nsep>>

\* a last line comment without newline (the end of the file supplies the semicolon)
AEof(t) == /\ phase = "top" /\ Put(t) /\ phase' = "done"
           /\ UNCHANGED <<pending, sepd, nlok, ingroup, imps, impEnd, tailStart, nsep>>

GNext == /\ Len(toks) < MaxTok
         /\ \/ ABom \/ APackage \/ AImport \/ ALParen \/ ARParen
            \/ \E t \in SepToks : ASep(t)
            \/ \E t \in PkgToks : APkgName(t)
            \/ \E t \in NameToks : AName(t)
            \/ \E t \in StrToks : AString(t)
            \/ \E t \in TailToks : ATail(t)
            \/ \E t \in EofToks : AEof(t)

\* the token sequence is a complete file (the end of the input supplies a pending semicolon)
Accepting == phase \in {"top", "done"}

IsBOMFile == toks # <<>> /\ toks[1] = "BOM"
BOMLen == IF IsBOMFile THEN 3 ELSE 0
\* where a reader that stops at the first byte after the import section stops
\* (offsets in the input without its byte-order mark)
ExpectedEnd == (IF tailStart > 0 THEN tailStart - 1 ELSE Len(bytes)) - BOMLen
=============================================================================
