--------------------------- MODULE ImportsReader ---------------------------
(***************************************************************************)
(* Reference semantics of imports.ReadImports (property C18), byte level.  *)
(*                                                                         *)
(* Bytes are naturals, inputs are sequences of naturals.  The reader is    *)
(* written the way imports/read.go is structured (skip spaces and          *)
(* comments, keyword, identifier, string literal, import clause, the       *)
(* declaration loop) but over positions instead of a mutable buffer:       *)
(* every scanner returns R(p, ok) where, on success, everything before p   *)
(* has been consumed and, on failure, p is the position of the byte whose  *)
(* reading revealed the syntax error (Len+1 when it was the end of input). *)
(*                                                                         *)
(* Deliberate deviations from the code, named:                             *)
(*  - the leading byte-order mark is discarded before reading (what the    *)
(*    property statement and upstream go/build require); Bug = "KeepBOM"   *)
(*    is the variant that does not;                                        *)
(*  - how many bytes are returned together with a reported error is left   *)
(*    open (the statement only requires a prefix of the input);            *)
(*  - NUL: the code fails with a non-syntax error as soon as it reads a    *)
(*    NUL byte.  Reading is strictly sequential, so this is "the first NUL *)
(*    is at or before the last position read", computed after the fact.    *)
(*                                                                         *)
(* The module is definitional.  ImportsGrammar/MC_ImportsFiles check it    *)
(* against the Go file-header grammar, MC_ImportsBytes explores it on      *)
(* arbitrary fragment strings, Trace_Imports evaluates it on records of    *)
(* the real code.                                                          *)
(***************************************************************************)
EXTENDS Naturals, Sequences

CONSTANT Bug        \* "none" | "KeepBOM" | "SemiNotSpace" | "CommentNotSpace"

NUL == 0
TAB == 9
LF == 10
FF == 12
CR == 13
SP == 32
DQ == 34
LPAR == 40
RPAR == 41
STAR == 42
DOTB == 46
SLASH == 47
SEMIB == 59
BSL == 92
BQ == 96
LETTER_I == 105
EOFB == 256                     \* what a read at the end of the input yields

BOMSeq == <<239, 187, 191>>
KwPackage == <<112, 97, 99, 107, 97, 103, 101>>
KwImport == <<105, 109, 112, 111, 114, 116>>

HasBOM(b) == Len(b) >= 3 /\ SubSeq(b, 1, 3) = BOMSeq
StripBOM(b) == IF HasBOM(b) /\ Bug # "KeepBOM" THEN SubSeq(b, 4, Len(b)) ELSE b

Byte(b, p) == IF p <= Len(b) THEN b[p] ELSE EOFB

\* read.go isIdent: letters, digits, underscore and every byte >= utf8.RuneSelf
IsIdent(c) == \/ (c >= 65 /\ c <= 90) \/ (c >= 97 /\ c <= 122) \/ (c >= 48 /\ c <= 57)
              \/ c = 95 \/ (c >= 128 /\ c <= 255)

\* "semicolons are never necessary to understand the input and are treated as spaces"
Spaces == {SP, FF, TAB, CR, LF} \cup (IF Bug = "SemiNotSpace" THEN {} ELSE {SEMIB})

R(p, ok) == [p |-> p, ok |-> ok]

RECURSIVE LineEnd(_, _), BlockEnd(_, _), Skip(_, _), IdentEnd(_, _), RawEnd(_, _), IntEnd(_, _)

\* position after the LF that ends a line comment; Len+1 at the end of the input
LineEnd(b, p) == IF p > Len(b) THEN p ELSE IF b[p] = LF THEN p + 1 ELSE LineEnd(b, p + 1)

\* position after the first "*/" at or after p; 0 when the comment is not closed
BlockEnd(b, p) == IF p + 1 > Len(b) THEN 0
                  ELSE IF b[p] = STAR /\ b[p + 1] = SLASH THEN p + 2 ELSE BlockEnd(b, p + 1)

\* peekByte(skipSpace = true): position of the next byte that is neither space nor comment
Skip(b, p) ==
  IF p > Len(b) THEN R(p, TRUE)
  ELSE IF b[p] \in Spaces THEN Skip(b, p + 1)
  ELSE IF b[p] = SLASH /\ Bug # "CommentNotSpace" THEN
       IF Byte(b, p + 1) = SLASH THEN Skip(b, LineEnd(b, p + 2))
       ELSE IF Byte(b, p + 1) = STAR THEN
            (IF BlockEnd(b, p + 2) = 0 THEN R(Len(b) + 1, FALSE) ELSE Skip(b, BlockEnd(b, p + 2)))
       ELSE R(p + 1, FALSE)
  ELSE R(p, TRUE)

IdentEnd(b, p) == IF IsIdent(Byte(b, p)) THEN IdentEnd(b, p + 1) ELSE p

\* readKeyword
Keyword(b, p, kw) ==
  LET s == Skip(b, p) IN
  IF ~s.ok THEN s
  ELSE LET bad == {k \in 1..Len(kw) : Byte(b, s.p + k - 1) # kw[k]} IN
       IF bad # {} THEN R(s.p + (CHOOSE k \in bad : \A j \in bad : k <= j) - 1, FALSE)
       ELSE IF IsIdent(Byte(b, s.p + Len(kw))) THEN R(s.p + Len(kw), FALSE)
       ELSE R(s.p + Len(kw), TRUE)

\* readIdent
Ident(b, p) ==
  LET s == Skip(b, p) IN
  IF ~s.ok THEN s
  ELSE IF ~IsIdent(Byte(b, s.p)) THEN R(s.p, FALSE)
  ELSE R(IdentEnd(b, s.p), TRUE)

\* position of the closing back quote, 0 if there is none
RawEnd(b, p) == IF p > Len(b) THEN 0 ELSE IF b[p] = BQ THEN p ELSE RawEnd(b, p + 1)

\* interpreted string: R(position of the closing quote, TRUE) or R(position of the failure, FALSE);
\* the byte after a backslash is skipped whatever it is
IntEnd(b, p) == IF p > Len(b) THEN R(Len(b) + 1, FALSE)
                ELSE IF b[p] = DQ THEN R(p, TRUE)
                ELSE IF b[p] = LF THEN R(p, FALSE)
                ELSE IF b[p] = BSL THEN IntEnd(b, p + 2)
                ELSE IntEnd(b, p + 1)

\* readString: [p, ok, from, to]; the literal is b[from..to] including its quotes
S(p, ok, from, to) == [p |-> p, ok |-> ok, from |-> from, to |-> to]
String(b, p) ==
  LET s == Skip(b, p) IN
  IF ~s.ok THEN S(s.p, FALSE, 0, 0)
  ELSE IF Byte(b, s.p) = BQ THEN
       LET e == RawEnd(b, s.p + 1) IN
       IF e = 0 THEN S(Len(b) + 1, FALSE, 0, 0) ELSE S(e + 1, TRUE, s.p, e)
  ELSE IF Byte(b, s.p) = DQ THEN
       LET e == IntEnd(b, s.p + 1) IN
       IF ~e.ok THEN S(e.p, FALSE, 0, 0) ELSE S(e.p + 1, TRUE, s.p, e.p)
  ELSE S(s.p, FALSE, 0, 0)

\* readImport: optional "." or identifier, then the path literal
Import(b, p) ==
  LET s == Skip(b, p) IN
  IF ~s.ok THEN S(s.p, FALSE, 0, 0)
  ELSE IF Byte(b, s.p) = DOTB THEN String(b, s.p + 1)
  ELSE IF IsIdent(Byte(b, s.p)) THEN String(b, IdentEnd(b, s.p))
  ELSE String(b, s.p)

\* Result of the syntactic reading: err, the last position read (epos), the length of
\* the returned prefix when there is no error (end), the spans of the import literals.
Res(err, epos, end, spans) == [err |-> err, epos |-> epos, end |-> end, spans |-> spans]
Min(a, c) == IF a <= c THEN a ELSE c
Failed(b, p, spans) == Res("syntax", Min(p, Len(b)), 0, spans)
\* stopped at position p: before the end "return all but that last byte", at the end everything
Stopped(b, p, spans) == IF p > Len(b) THEN Res("none", Len(b), Len(b), spans)
                        ELSE Res("none", p, p - 1, spans)

RECURSIVE Decls(_, _, _), Group(_, _, _)
\* for r.peekByte(true) == 'i' { readKeyword("import"); "(" specs ")" | spec }
Decls(b, p, spans) ==
  LET s == Skip(b, p) IN
  IF ~s.ok THEN Failed(b, s.p, spans)
  ELSE IF Byte(b, s.p) # LETTER_I THEN Stopped(b, s.p, spans)
  ELSE LET k == Keyword(b, s.p, KwImport) IN
       IF ~k.ok THEN Failed(b, k.p, spans)
       ELSE LET s2 == Skip(b, k.p) IN
            IF ~s2.ok THEN Failed(b, s2.p, spans)
            ELSE IF Byte(b, s2.p) = LPAR THEN Group(b, s2.p + 1, spans)
            ELSE LET im == Import(b, s2.p) IN
                 IF ~im.ok THEN Failed(b, im.p, spans)
                 ELSE Decls(b, im.p, Append(spans, <<im.from, im.to>>))
Group(b, p, spans) ==
  LET s == Skip(b, p) IN
  IF ~s.ok THEN Failed(b, s.p, spans)
  ELSE IF Byte(b, s.p) = RPAR THEN Decls(b, s.p + 1, spans)
  ELSE LET im == Import(b, s.p) IN
       IF ~im.ok THEN Failed(b, im.p, spans)
       ELSE Group(b, im.p, Append(spans, <<im.from, im.to>>))

ReadSyn(b) ==
  LET k == Keyword(b, 1, KwPackage) IN
  IF ~k.ok THEN Failed(b, k.p, <<>>)
  ELSE LET id == Ident(b, k.p) IN
       IF ~id.ok THEN Failed(b, id.p, <<>>)
       ELSE Decls(b, id.p, <<>>)

FirstNUL(b) == IF \E k \in 1..Len(b) : b[k] = NUL
               THEN CHOOSE k \in 1..Len(b) : b[k] = NUL /\ \A j \in 1..(k - 1) : b[j] # NUL
               ELSE 0
HasNUL(b) == FirstNUL(b) # 0

----------------------------------------------------------------------------
\* Read(input): what ReadImports must do.
\*   err     "none" | "syntax" | "nul"    (with reportSyntaxError = TRUE)
\*   out     the returned bytes when err = "none" (a prefix of the input, BOM aside)
\*   imports the import path literals, in order, when err = "none"
Read(input) ==
  LET b == StripBOM(input)
      r == ReadSyn(b)
      z == FirstNUL(b)
      err == IF z # 0 /\ z <= r.epos THEN "nul" ELSE r.err
  IN [err |-> err,
      end |-> IF err = "none" THEN r.end ELSE 0,
      out |-> IF err = "none" THEN SubSeq(b, 1, r.end) ELSE <<>>,
      spans |-> IF err = "none" THEN r.spans ELSE <<>>,
      imports |-> IF err = "none" THEN [k \in 1..Len(r.spans) |-> SubSeq(b, r.spans[k][1], r.spans[k][2])] ELSE <<>>,
      whole |-> b]

\* reportSyntaxError = FALSE: a syntax error is swallowed and the whole input is
\* returned (unless the rest of the input holds a NUL, which is still an error).
ErrQuietPossible(input) ==
  LET r == Read(input) IN
  IF r.err = "syntax" THEN (IF HasNUL(r.whole) THEN {"none", "nul"} ELSE {"none"}) ELSE {r.err}

IsPrefix(a, b) == Len(a) <= Len(b) /\ SubSeq(b, 1, Len(a)) = a
\* "a leading portion of the input (a byte-order mark aside)"
IsPrefixBOMAside(a, input) == IsPrefix(a, input) \/ (HasBOM(input) /\ IsPrefix(a, SubSeq(input, 4, Len(input))))
IsWholeBOMAside(a, input) == a = input \/ (HasBOM(input) /\ a = SubSeq(input, 4, Len(input)))

----------------------------------------------------------------------------
\* Laws of the reader itself (checked by TLC on every explored input).
QuoteOK(lit) == Len(lit) >= 2 /\ lit[1] \in {DQ, BQ} /\ lit[Len(lit)] = lit[1]
SpansOrdered(r) == \A k \in 1..Len(r.spans) :
                      /\ r.spans[k][1] < r.spans[k][2] /\ r.spans[k][2] <= r.end
                      /\ (k > 1 => r.spans[k - 1][2] < r.spans[k][1])
LawWellFormedR(r) ==
  r.err = "none" => /\ r.end <= Len(r.whole)
                    /\ SpansOrdered(r)
                    /\ \A k \in 1..Len(r.imports) : QuoteOK(r.imports[k])
                    /\ ~HasNUL(r.out)
\* the returned prefix, read again (r2 = Read(r.out)), gives the same imports and is returned whole
LawPrefixStableR(r, r2) ==
  r.err = "none" => r2.err = "none" /\ r2.imports = r.imports /\ r2.out = r.out
LawWellFormed(input) == LawWellFormedR(Read(input))
LawPrefixStable(input) == LET r == Read(input) IN LawPrefixStableR(r, Read(r.out))
=============================================================================
