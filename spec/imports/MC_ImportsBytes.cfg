SPECIFICATION Spec
CONSTANTS
  Bug = "none"
  Emit = FALSE
  Alphabet = {"PKG", "IMP", "DQ", "BQ", "SLASH", "STAR", "LF", "LP", "RP", "SP", "BSL", "NUL", "xEF", "A", "SEMI", "DOT"}
  N = 3
INVARIANTS InvReaderLaws InvOutIsPrefix InvNulOnlyWithNUL InvQuiet
PROPERTIES StopIsFinal
CHECK_DEADLOCK FALSE
