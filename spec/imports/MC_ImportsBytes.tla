-------------------------- MODULE MC_ImportsBytes --------------------------
(***************************************************************************)
(* C18, arbitrary input.  The reachable states are all strings of at most  *)
(* N fragments over Alphabet (one more when the string starts with the     *)
(* package clause, so that the exploration reaches into import groups): a  *)
(* tree, one state per input.  A fragment is a byte or one of the two      *)
(* keywords the reader looks for - over single bytes no input of this size *)
(* would get past "package".  In every state TLC evaluates the reference   *)
(* reader and checks its laws (totality is checked by evaluation itself);  *)
(* per state one case "input, predicted error class, predicted prefix      *)
(* length, predicted imports" is emitted for replay into the real code.    *)
(***************************************************************************)
EXTENDS ImportsReader, TLC, Json

CONSTANTS Alphabet, N, Emit

FragBytes(f) ==
  CASE f = "PKG" -> <<112, 97, 99, 107, 97, 103, 101, 32, 112>>     \* package p
    [] f = "IMP" -> <<105, 109, 112, 111, 114, 116>>                \* import
    [] f = "DQ" -> <<34>>
    [] f = "BQ" -> <<96>>
    [] f = "SLASH" -> <<47>>
    [] f = "STAR" -> <<42>>
    [] f = "LF" -> <<10>>
    [] f = "LP" -> <<40>>
    [] f = "RP" -> <<41>>
    [] f = "SP" -> <<32>>
    [] f = "BSL" -> <<92>>
    [] f = "NUL" -> <<0>>
    [] f = "xEF" -> <<239>>
    [] f = "A" -> <<97>>
    [] f = "SEMI" -> <<59>>
    [] f = "DOT" -> <<46>>
    [] f = "BOM" -> <<239, 187, 191>>

VARIABLES s, bytes, rd, rd2
vars == <<s, bytes, rd, rd2>>

Bound == IF s # <<>> /\ s[1] = "PKG" THEN N + 1 ELSE N

Case(b, r) == [input |-> b, err |-> r.err, end |-> r.end, imports |-> r.imports]
EmitCase(b, r) == Emit => PrintT(<<"EMIT", ToJson(Case(b, r))>>)

Init == /\ s = <<>> /\ bytes = <<>> /\ rd = Read(<<>>) /\ rd2 = Read(<<>>)
        /\ EmitCase(<<>>, Read(<<>>))
Next == /\ Len(s) < Bound
        /\ \E f \in Alphabet :
              /\ s' = Append(s, f)
              /\ bytes' = bytes \o FragBytes(f)
              /\ rd' = Read(bytes')
              /\ rd2' = Read(rd'.out)
              /\ EmitCase(bytes', rd')
Spec == Init /\ [][Next]_vars

\* ---- laws of the reader on arbitrary input ----
InvReaderLaws  == LawWellFormedR(rd) /\ LawPrefixStableR(rd, rd2)
InvOutIsPrefix == rd.err = "none" => IsPrefixBOMAside(rd.out, bytes)
InvNulOnlyWithNUL == rd.err = "nul" => HasNUL(bytes)
InvQuiet       == ErrQuietPossible(bytes) \subseteq {"none", "nul"}
\* "stops reading the input once the imports have completed": when the reader stopped
\* before the end of the input, nothing appended to the input changes its result
StopIsFinal == [][ (rd.err = "none" /\ rd.end < Len(rd.whole))
                     => (rd'.err = "none" /\ rd'.imports = rd.imports /\ rd'.end = rd.end) ]_vars
=============================================================================
