-------------------------- MODULE MC_ImportsFiles --------------------------
(***************************************************************************)
(* C18, valid Go files.  The reachable states are the token sequences of   *)
(* ImportsGrammar up to the bounds (a tree); in every state TLC evaluates  *)
(* the byte-level reference reader (ImportsReader) on the rendered bytes   *)
(* and checks the statement's laws between the two (ImportsFileLaws):      *)
(*   - a complete file is read without error,                              *)
(*   - the imports read are the file's import path literals, in order,     *)
(*   - the returned bytes are a leading portion of the input (BOM aside)   *)
(*     that covers the import section and stops before the first other     *)
(*     declaration, and reading that portion again gives the same imports, *)
(*   - an incomplete header is a syntax error.                             *)
(* For every complete file one case is emitted: bytes, expected imports,   *)
(* expected length of the returned prefix.  The Go driver replays it into  *)
(* the real ReadImports and into go/parser.                                *)
(***************************************************************************)
EXTENDS ImportsFileLaws, TLC, Json

CONSTANT Emit

VARIABLES rd,        \* Read(bytes), computed once per state
          rd2        \* Read(rd.out): the returned prefix read again
vars == <<gvars, rd, rd2>>

Case == [input |-> bytes', imports |-> imps', end |-> ExpectedEnd']

Init == GInit /\ rd = Read(<<>>) /\ rd2 = Read(<<>>)
Next == /\ GNext
        /\ rd' = Read(bytes')
        /\ rd2' = Read(rd'.out)
        /\ (Emit /\ Accepting') => PrintT(<<"EMIT", ToJson(Case)>>)
Spec == Init /\ [][Next]_vars

\* ---- the laws (ImportsFileLaws) ----
InvCompleteFileReads  == LawCompleteFileReads(rd)
InvImportsExact       == LawImportsExact(rd)
InvPrefix             == LawPrefix(rd)
InvPrefixReparses     == LawPrefixReparses(rd, rd2)
InvReaderLaws         == LawReader(rd, rd2)
InvIncompleteRejected == LawIncompleteRejected(rd)
=============================================================================
