\* default configuration; checks/c18.py writes the per-tier one.  Run with -simulate num=... -depth ...
SPECIFICATION Spec
CONSTANTS
  Bug = "none"
  Emit = FALSE
  SepToks = {"SP", "TAB", "LF", "CRLF", "SEMI", "LC", "BC", "BCQ", "BCS", "BCNL"}
  PkgToks = {"PKG_P", "PKG_I", "PKG_U"}
  NameToks = {"DOT", "BLANK", "NAME", "NAMEI", "NAMEU"}
  StrToks = {"S_A", "S_RAW", "S_ESC", "S_LONG", "S_C"}
  TailToks = {"T_VAR", "T_FUNC", "T_TYPE", "T_CONST"}
  EofToks = {"T_LC"}
  AllowBOM = TRUE
  MaxTok = 60
  MaxSep = 60
INVARIANTS InvFileLaws
CHECK_DEADLOCK FALSE
