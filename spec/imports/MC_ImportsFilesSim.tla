------------------------ MODULE MC_ImportsFilesSim -------------------------
(***************************************************************************)
(* C18, valid Go files beyond the exhaustive bound: the same grammar       *)
(* machine and the same laws as MC_ImportsFiles, arranged for TLC's        *)
(* simulation mode (seeded random walks, -simulate): the reference reader  *)
(* is evaluated on the visited states only (in the invariant, not for      *)
(* every candidate successor) and a state emits its own case when it is    *)
(* expanded, so a walk of depth d yields at most d cases.                  *)
(***************************************************************************)
EXTENDS ImportsFileLaws, TLC, Json

CONSTANT Emit

vars == gvars

Case == [input |-> bytes, imports |-> imps, end |-> ExpectedEnd]

Init == GInit
Next == /\ (Emit /\ Accepting) => PrintT(<<"EMIT", ToJson(Case)>>)
        /\ GNext
Spec == Init /\ [][Next]_vars

Named(name, ok) == ok \/ (PrintT(<<"LAW", name>>) /\ FALSE)
InvFileLaws ==
  LET r == Read(bytes)
      r2 == Read(r.out)
  IN /\ Named("CompleteFileReads", LawCompleteFileReads(r))
     /\ Named("ImportsExact", LawImportsExact(r))
     /\ Named("Prefix", LawPrefix(r))
     /\ Named("PrefixReparses", LawPrefixReparses(r, r2))
     /\ Named("Reader", LawReader(r, r2))
     /\ Named("IncompleteRejected", LawIncompleteRejected(r))
=============================================================================
