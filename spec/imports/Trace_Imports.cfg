SPECIFICATION Spec
CONSTANTS
  K = 16
  Bug = "none"
INVARIANTS RecNoPanic RecPrefix RecQuietNoSyntax RecWholeWhenSwallowed RecL2
CHECK_DEADLOCK FALSE
