--------------------------- MODULE Trace_Imports ---------------------------
(***************************************************************************)
(* C18, validation of records produced by the real ReadImports on seeded   *)
(* random mutations of valid files and random fragment strings (binding    *)
(* B1).  A record holds the input and, for reportSyntaxError = TRUE (t)    *)
(* and FALSE (f), the error class, the returned bytes and the imports.     *)
(* The Rec* invariants are the statement's laws for arbitrary bytes; RecL2 *)
(* compares with the reference reader and is reported as drift only.       *)
(* Records are independent: the index runs in K lanes.                     *)
(***************************************************************************)
EXTENDS ImportsReader, TLC, Json

CONSTANTS K

Trace == ndJsonDeserialize("trace.ndjson")

VARIABLE i
vars == <<i>>

Init == i \in 1..K
Next == i + K <= Len(Trace) /\ i' = i + K
Spec == Init /\ [][Next]_vars

\* A failing record is named on stdout; the invariants themselves stay TRUE (the BAD
\* lines are the verdict), so one run names every offending record.
Bad(name) == PrintT(<<"BAD", name, i>>)
In == i <= Len(Trace)
T == Trace[i]

\* terminates without panicking
RecNoPanic == (In => ~T.panic) \/ Bad("RecNoPanic")
\* returns only bytes read from the input
RecPrefix  == ((In /\ ~T.panic) => IsPrefixBOMAside(T.t.out, T.input) /\ IsPrefixBOMAside(T.f.out, T.input)) \/ Bad("RecPrefix")
\* when syntax errors are not requested, none is reported ...
RecQuietNoSyntax == ((In /\ ~T.panic) => T.f.err # "syntax") \/ Bad("RecQuietNoSyntax")
\* ... and the whole input is returned.  An error that only the flag suppresses is a syntax error.
RecWholeWhenSwallowed ==
  ((In /\ ~T.panic /\ T.f.err = "none" /\ (T.t.err = "syntax" \/ (T.t.err # "none" /\ ~HasNUL(T.input))))
      => IsWholeBOMAside(T.f.out, T.input)) \/ Bad("RecWholeWhenSwallowed")
\* conformance with the reference reader (drift, not a verdict)
SameOut(real, r) == real = r.out \/ (HasBOM(T.input) /\ real = BOMSeq \o r.out)
RecL2 ==
  ((In /\ ~T.panic) =>
     LET r == Read(T.input) IN
     /\ T.t.err = r.err
     /\ T.f.err \in ErrQuietPossible(T.input)
     /\ r.err = "none" => /\ SameOut(T.t.out, r) /\ T.t.imports = r.imports
                          /\ SameOut(T.f.out, r) /\ T.f.imports = r.imports) \/ Bad("RecL2")
=============================================================================
