SPECIFICATION MCSpec
CONSTANTS
  Actors <- MCActors
  Progs <- MCProgs
  InitContent <- MCInit
  Family = "Fault"
  Bug = "HeadFirst"
  MaxFaults = 1
  Record = TRUE
  Emit = FALSE
VIEW View
INVARIANTS Exclusion MutexExclusion ReadsWhole NoLostUpdate ErrKeepsOld
