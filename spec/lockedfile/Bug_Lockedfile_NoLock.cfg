SPECIFICATION MCSpec
CONSTANTS
  Actors <- MCActors
  Progs <- MCProgs
  InitContent <- MCInit
  Family = "C06"
  Bug = "NoLock"
  MaxFaults = 0
  Record = TRUE
  Emit = FALSE
VIEW View
INVARIANTS Exclusion MutexExclusion ReadsWhole NoLostUpdate ErrKeepsOld
