----------------------------- MODULE Lockedfile -----------------------------
(***************************************************************************)
(* lockedfile (properties C06, C07), implementation-shaped (L2): every     *)
(* API call is decomposed into the system calls the real code issues (as   *)
(* observed through the vos / vsyscall shims):                             *)
(*   open (never O_TRUNC) -> flock(SH|EX) -> [truncate(0) if O_TRUNC was   *)
(*   requested] -> body -> flock(UN) -> close                              *)
(* flock is enabled iff the kernel would grant it: SH needs no EX holder,  *)
(* EX needs no holder at all (per open file description, so goroutines of  *)
(* one process exclude each other exactly like processes).                 *)
(*                                                                         *)
(* Operations: read | write(v) | transform(kind, tok) | hold(mode) with    *)
(* mode in {"r", "w", "create", "wx"} (OpenFile/Edit/Create ... Close; wx =  *)
(* w while a child process holds a copy of the descriptor) | mutex.        *)
(* Transform kinds: "append", "grow" (longer), "chop" (shorter), "same".    *)
(***************************************************************************)
EXTENDS Naturals, Sequences, FiniteSets, TLC

CONSTANTS Actors, Progs, InitContent,
          Bug,        \* "none" | "TruncBeforeLock" | "WriteShared" | "NoLock" | "HeadFirst"
          MaxFaults,  \* failing write steps inside Transform
          Record

VARIABLES prog, content, exists, holders, mheld, pc, ip, loc, faults, hist
vars == <<prog, content, exists, holders, mheld, pc, ip, loc, faults, hist>>

Cur(a) == prog[a][ip[a]]
NoLoc == [buf |-> <<>>, old |-> <<>>, new |-> <<>>, err |-> FALSE]

\* the transformation functions (the driver implements the same ones)
Apply(kind, tok, old) ==
  CASE kind = "append" -> Append(old, tok)
    [] kind = "chop"   -> IF old = <<>> THEN old ELSE SubSeq(old, 1, Len(old) - 1)
    [] kind = "clear"  -> <<>>                                    \* the function returns nothing at all: the file becomes empty
    [] kind = "same"   -> [k \in 1..Len(old) |-> tok]
    [] kind = "grow"   -> [k \in 1..(Len(old) + 1) |-> tok]
    [] kind = "grow3"  -> [k \in 1..(Len(old) + 3) |-> tok]      \* a tail of several bytes: its write can be short      \* every byte changes and the file gets longer

Init == /\ prog \in Progs
        /\ content = InitContent /\ exists = TRUE
        /\ holders = {}                 \* {<<actor, "sh"|"ex">>} on the data file
        /\ mheld = {}                   \* holders of the mutex lock file (always "ex")
        /\ pc = [a \in Actors |-> "next"] /\ ip = [a \in Actors |-> 0]
        /\ loc = [a \in Actors |-> NoLoc]
        /\ faults = 0 /\ hist = <<>>

Goto(a, l) == pc' = [pc EXCEPT ![a] = l]
Ret(a, res) == /\ hist' = IF Record THEN Append(hist, [a |-> a, op |-> Cur(a).op, res |-> res]) ELSE hist
               /\ Goto(a, "next")
Keep == UNCHANGED <<content, exists, holders, mheld, loc>>

WantsEx(o) == o.op \in {"write", "transform"} \/ (o.op = "hold" /\ o.mode \in {"w", "create", "wx", "wa"})   \* wa: O_WRONLY|O_APPEND
WantsTrunc(o) == o.op = "write" \/ (o.op = "hold" /\ o.mode = "create")
Mode(o) == IF WantsEx(o) /\ Bug # "WriteShared" THEN "ex" ELSE "sh"
Compatible(a, m) == IF m = "ex" THEN \A h \in holders : h[1] = a ELSE \A h \in holders : h[2] = "sh" \/ h[1] = a

NextOp(a) == /\ pc[a] = "next" /\ ip[a] < Len(prog[a])
             /\ ip' = [ip EXCEPT ![a] = @ + 1]
             \* Mutex.Lock, and holders of a second file (modes "cf" / "wf": Create / Edit of a FIFO, whose truncation
             \* fails and is tolerated; modes "excl" / "wnew": O_RDWR|O_CREATE with and without O_EXCL on a file that does not
             \* exist when the run starts - that an O_EXCL open fails when the file is already there is not modelled, the
             \* model lets it acquire), are exclusive holders of a lock domain of their own
             /\ pc' = [pc EXCEPT ![a] = IF prog[a][ip[a] + 1].op = "mutex" \/ prog[a][ip[a] + 1].mode \in {"cf", "wf", "excl", "wnew"} THEN "m_open" ELSE "open"]
             /\ loc' = [loc EXCEPT ![a] = NoLoc]
             /\ UNCHANGED <<prog, content, exists, holders, mheld, faults, hist>>

Open(a) == /\ pc[a] = "open"
           /\ exists' = TRUE
           /\ content' = IF Bug = "TruncBeforeLock" /\ WantsTrunc(Cur(a)) THEN <<>> ELSE content   \* faulty: O_TRUNC passed to open
           /\ Goto(a, IF Bug = "NoLock" THEN "body0" ELSE "flock")
           /\ UNCHANGED <<holders, mheld, loc, hist>>
Flock(a) == /\ pc[a] = "flock" /\ Compatible(a, Mode(Cur(a)))
            /\ holders' = holders \cup {<<a, Mode(Cur(a))>>}
            /\ Goto(a, "body0")
            /\ UNCHANGED <<content, exists, mheld, loc, hist>>
\* after the lock: truncate if O_TRUNC was requested, then the operation's body
Body0(a) == /\ pc[a] = "body0"
            /\ LET o == Cur(a) IN
               IF WantsTrunc(o) /\ Bug # "TruncBeforeLock"
               THEN content' = <<>> /\ Goto(a, IF o.op = "write" THEN "w_write" ELSE "hold")
               ELSE /\ UNCHANGED content
                    /\ Goto(a, CASE o.op = "read" -> "r_read" [] o.op = "write" -> "w_write"
                                 [] o.op = "transform" -> "r_read" [] OTHER -> "hold")
            /\ UNCHANGED <<exists, holders, mheld, loc, hist>>
\* io.ReadAll: reads until an empty read
RRead(a) == /\ pc[a] = "r_read"
            /\ LET n == Len(loc[a].buf) IN
               IF Len(content) > n
               THEN loc' = [loc EXCEPT ![a].buf = @ \o SubSeq(content, n + 1, Len(content))] /\ UNCHANGED pc
               ELSE /\ UNCHANGED loc
                    /\ Goto(a, IF Cur(a).op = "read" THEN "unlock" ELSE "t_plan")
            /\ UNCHANGED <<content, exists, holders, mheld, hist>>
WWrite(a) == /\ pc[a] = "w_write"
             /\ content' = Cur(a).v
             /\ Goto(a, "unlock")
             /\ UNCHANGED <<exists, holders, mheld, loc, hist>>
\* Transform: compute the new contents (no system call), then the write plan
TPlan(a) == /\ pc[a] = "t_plan"
            /\ LET old == loc[a].buf  new == Apply(Cur(a).kind, Cur(a).tok, old) IN
               /\ loc' = [loc EXCEPT ![a].old = old, ![a].new = new]
               /\ Goto(a, IF Len(new) > Len(old) THEN (IF Bug = "HeadFirst" THEN "t_head" ELSE "t_tail") ELSE "t_head")
            /\ UNCHANGED <<content, exists, holders, mheld, hist>>
WriteAt(c, data, off) == [k \in 1..(IF Len(c) > off + Len(data) THEN Len(c) ELSE off + Len(data)) |->
                            IF k > off /\ k <= off + Len(data) THEN data[k - off] ELSE IF k <= Len(c) THEN c[k] ELSE "0"]
TTail(a, fail) ==
   /\ pc[a] = "t_tail"
   /\ LET old == loc[a].old  new == loc[a].new IN
      IF fail THEN Goto(a, "t_tailundo") /\ UNCHANGED content
      ELSE content' = WriteAt(content, SubSeq(new, Len(old) + 1, Len(new)), Len(old))
           /\ Goto(a, IF Bug = "HeadFirst" THEN "unlock" ELSE "t_head")
   /\ UNCHANGED <<exists, holders, mheld, loc, hist>>
TTailUndo(a) == /\ pc[a] = "t_tailundo"                       \* best effort: truncate back to the old length
                /\ content' = SubSeq(content, 1, Len(loc[a].old))
                /\ loc' = [loc EXCEPT ![a].err = TRUE] /\ Goto(a, "unlock")
                /\ UNCHANGED <<exists, holders, mheld, hist>>
THead(a, fail) ==
   /\ pc[a] = "t_head"
   /\ LET old == loc[a].old  new == loc[a].new IN
      IF fail THEN Goto(a, "t_rollback") /\ UNCHANGED content
      ELSE /\ content' = WriteAt(content, IF Len(new) >= Len(old) THEN SubSeq(new, 1, Len(old)) ELSE new, 0)
           /\ Goto(a, IF Len(new) < Len(old) THEN "t_trunc"
                      ELSE IF Bug = "HeadFirst" /\ Len(new) > Len(old) THEN "t_tail" ELSE "unlock")
   /\ UNCHANGED <<exists, holders, mheld, loc, hist>>
TTrunc(a, fail) ==
   /\ pc[a] = "t_trunc"
   /\ IF fail THEN Goto(a, "t_rollback") /\ UNCHANGED content
      ELSE content' = SubSeq(content, 1, Len(loc[a].new)) /\ Goto(a, "unlock")
   /\ UNCHANGED <<exists, holders, mheld, loc, hist>>
\* deferred rollback: WriteAt(old, 0); Truncate(len(old))
TRollback(a) == /\ pc[a] = "t_rollback"
                /\ content' = WriteAt(content, loc[a].old, 0)
                /\ Goto(a, "t_rolltrunc") /\ UNCHANGED <<exists, holders, mheld, loc, hist>>
TRollTrunc(a) == /\ pc[a] = "t_rolltrunc"
                 /\ content' = SubSeq(content, 1, Len(loc[a].old))
                 /\ loc' = [loc EXCEPT ![a].err = TRUE] /\ Goto(a, "unlock")
                 /\ UNCHANGED <<exists, holders, mheld, hist>>
Hold(a) == /\ pc[a] = "hold" /\ Goto(a, "unlock") /\ Keep /\ UNCHANGED hist   \* the caller's critical section
Unlock(a) == /\ pc[a] = "unlock"
             /\ holders' = {h \in holders : h[1] # a}
             /\ Goto(a, "close") /\ UNCHANGED <<content, exists, mheld, loc, hist>>
Close(a) == /\ pc[a] = "close"
            /\ Ret(a, IF loc[a].err THEN <<"err", content = loc[a].old>> ELSE IF Cur(a).op = "read" THEN <<"val", loc[a].buf>> ELSE <<"ok">>)
            /\ Keep
\* Mutex.Lock / unlock on a separate lock file
MOpen(a) == /\ pc[a] = "m_open" /\ Goto(a, "m_flock") /\ Keep /\ UNCHANGED hist
MFlock(a) == /\ pc[a] = "m_flock" /\ (mheld = {} \/ Bug = "NoLock")
             /\ mheld' = mheld \cup {a} /\ Goto(a, "m_hold")
             /\ UNCHANGED <<content, exists, holders, loc, hist>>
MHold(a) == /\ pc[a] = "m_hold" /\ Goto(a, "m_unlock") /\ Keep /\ UNCHANGED hist
MUnlock(a) == /\ pc[a] = "m_unlock" /\ mheld' = mheld \ {a} /\ Goto(a, "m_close")
              /\ UNCHANGED <<content, exists, holders, loc, hist>>
MClose(a) == /\ pc[a] = "m_close" /\ Ret(a, <<"ok">>) /\ Keep

Step(a) == /\ UNCHANGED <<prog, ip>>
           /\ \/ (Open(a) \/ Flock(a) \/ Body0(a) \/ RRead(a) \/ WWrite(a) \/ TPlan(a) \/ TTailUndo(a) \/ TRollback(a) \/ TRollTrunc(a)
                  \/ Hold(a) \/ Unlock(a) \/ Close(a) \/ MOpen(a) \/ MFlock(a) \/ MHold(a) \/ MUnlock(a) \/ MClose(a)
                  \/ TTail(a, FALSE) \/ THead(a, FALSE) \/ TTrunc(a, FALSE)) /\ UNCHANGED faults
              \/ /\ faults < MaxFaults /\ (TTail(a, TRUE) \/ THead(a, TRUE) \/ TTrunc(a, TRUE)) /\ faults' = faults + 1
Done == \A a \in Actors : pc[a] = "next" /\ ip[a] = Len(prog[a])
Next == (\E a \in Actors : NextOp(a) \/ Step(a)) \/ (Done /\ UNCHANGED vars)    \* TLC's deadlock check = no actor stuck on a lock
Spec == Init /\ [][Next]_vars
FairSpec == Spec /\ WF_vars(Next)

-----------------------------------------------------------------------------
InCritical(a) == pc[a] \in {"body0", "r_read", "w_write", "t_plan", "t_tail", "t_tailundo", "t_head", "t_trunc", "t_rollback", "t_rolltrunc", "hold", "unlock"}
\* C06: a writer in its critical section is alone; readers share only with readers
Exclusion == \A a, b \in Actors : (a # b /\ InCritical(a) /\ InCritical(b)) => (~WantsEx(Cur(a)) /\ ~WantsEx(Cur(b)))
MutexExclusion == Cardinality({a \in Actors : pc[a] \in {"m_hold", "m_unlock"}}) <= 1
\* C07: every value a Read returned is a whole value: the initial one, a written one, or a transform of a whole value
RECURSIVE Closure(_, _)
AllOps == UNION {{prog[a][k] : k \in 1..Len(prog[a])} : a \in Actors}
StepSet(S) == S \cup {o.v : o \in {o \in AllOps : o.op = "write"}} \cup {<<>> : o \in {o \in AllOps : o.op = "hold" /\ o.mode = "create"}}
                \cup {Apply(o.kind, o.tok, s) : o \in {o \in AllOps : o.op = "transform"}, s \in S}
Closure(S, n) == IF n = 0 THEN S ELSE Closure(StepSet(S), n - 1)
Whole == Closure({InitContent}, Cardinality(AllOps))
ReadsWhole == \A k \in 1..Len(hist) : (hist[k].op = "read" /\ hist[k].res[1] = "val") => hist[k].res[2] \in Whole
\* C07: tokens appended by completed transforms are never lost (unless a later write / chop / same replaced the contents)
OnlyAppends == \A o \in AllOps : o.op \in {"read", "mutex"} \/ (o.op = "transform" /\ o.kind = "append") \/ (o.op = "hold" /\ o.mode # "create")
Appended == {hist[k].a : k \in {j \in 1..Len(hist) : hist[j].op = "transform" /\ hist[j].res = <<"ok">>}}
NoLostUpdate == (Done /\ OnlyAppends /\ faults = 0) =>
     /\ Len(content) = Len(InitContent) + Cardinality({o \in AllOps : o.op = "transform"})
     /\ \A o \in AllOps : o.op = "transform" => \E k \in 1..Len(content) : content[k] = o.tok
\* C07: a failing step inside Transform leaves the previous contents in place (single actor configs)
ErrKeepsOld == \A k \in 1..Len(hist) : hist[k].res[1] = "err" => hist[k].res[2]
Termination == <>Done
View == <<prog, content, exists, holders, mheld, pc, ip, loc, faults>>
=============================================================================
