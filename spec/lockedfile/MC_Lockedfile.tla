--------------------------- MODULE MC_Lockedfile ---------------------------
EXTENDS Lockedfile, Json
CONSTANTS Family, Emit

MCActors == {"a1", "a2", "a3"}
MCInit == <<"i", "i">>
Rd == [op |-> "read", v |-> <<>>, kind |-> "-", tok |-> "-", mode |-> "-"]
Wr(v) == [op |-> "write", v |-> v, kind |-> "-", tok |-> "-", mode |-> "-"]
Tr(kind, tok) == [op |-> "transform", v |-> <<>>, kind |-> kind, tok |-> tok, mode |-> "-"]
HoldOp(mode) == [op |-> "hold", v |-> <<>>, kind |-> "-", tok |-> "-", mode |-> mode]
Mx == [op |-> "mutex", v |-> <<>>, kind |-> "-", tok |-> "-", mode |-> "-"]
\* a Mutex value of the actor's own for the same path (as another process would have): only the file lock excludes
MxOwn == [op |-> "mutex", v |-> <<>>, kind |-> "-", tok |-> "-", mode |-> "own"]
P(x, y, z) == ("a1" :> x) @@ ("a2" :> y) @@ ("a3" :> z)

\* C06: every kind of holder against every other
ProgsC06 == {
  P(<<HoldOp("w")>>, <<HoldOp("r")>>, <<HoldOp("r")>>),
  P(<<HoldOp("w")>>, <<HoldOp("w")>>, <<HoldOp("create")>>),
  P(<<HoldOp("create")>>, <<Rd>>, <<Tr("append", "x")>>),
  P(<<Wr(<<"p", "q", "r">>)>>, <<HoldOp("r")>>, <<HoldOp("w")>>),
  P(<<Mx, Mx>>, <<Mx>>, <<Mx>>),
  P(<<MxOwn, MxOwn>>, <<MxOwn>>, <<Mx>>),
  P(<<HoldOp("wx")>>, <<HoldOp("w")>>, <<Rd>>),
  P(<<HoldOp("cf")>>, <<HoldOp("wf")>>, <<HoldOp("cf")>>),
  P(<<HoldOp("excl")>>, <<HoldOp("wnew")>>, <<HoldOp("wnew")>>),
  P(<<HoldOp("wa")>>, <<HoldOp("r")>>, <<HoldOp("wa"), HoldOp("w")>>)
}
\* C07: readers, writers and transformers of all length relations
ProgsC07 == {
  P(<<Wr(<<"p", "q", "r">>)>>, <<Tr("append", "x")>>, <<Rd, Rd>>),
  P(<<Tr("append", "x")>>, <<Tr("append", "y")>>, <<Tr("append", "z"), Rd>>),
  P(<<Tr("chop", "-")>>, <<Tr("same", "s")>>, <<Rd, Rd>>),
  P(<<Tr("grow", "g")>>, <<Rd>>, <<Rd, Rd>>),
  P(<<Wr(<<"p">>), Rd>>, <<Wr(<<"u", "v", "w">>)>>, <<Rd, Rd>>),
  P(<<Tr("append", "x"), Rd>>, <<Tr("chop", "-")>>, <<Wr(<<>>)>>),
  P(<<Tr("clear", "-"), Rd>>, <<Tr("append", "y")>>, <<Rd>>)
}
\* C07: one failing step inside Transform, all length relations
\* ... and a failing truncation at the start of Write (shorter and longer new contents): Write reports the error and the
\* old contents stay (failures of the copy that follows are documented as not atomic and are not injected)
ProgsFault == { P(<<Tr(k, "t")>>, <<>>, <<>>) : k \in {"append", "grow", "grow3", "chop", "same", "clear"} }
              \cup { P(<<Wr(<<"n">>)>>, <<>>, <<>>), P(<<Wr(<<"n", "e", "w">>)>>, <<>>, <<>>) }

MCProgs == CASE Family = "C06" -> ProgsC06 [] Family = "C07" -> ProgsC07 [] OTHER -> ProgsFault

EmitInit == IF Emit THEN PrintT(<<"EMIT", ToJson([prog |-> prog, init |-> InitContent])>>) ELSE TRUE
MCSpec == (Init /\ EmitInit) /\ [][Next]_vars
MCFairSpec == MCSpec /\ WF_vars(Next)
=============================================================================
