SPECIFICATION Spec
CONSTANTS K = 16
INVARIANTS InvL1NoOverlap InvL1Witness InvL1Terminates InvL1FaultKeepsOld InvL1CleanTransform
CHECK_DEADLOCK FALSE
