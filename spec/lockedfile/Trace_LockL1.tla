---------------------------- MODULE Trace_LockL1 ----------------------------
(***************************************************************************)
(* Contract of lockedfile locking (C06) and of Transform's error behaviour *)
(* (second half of C07), as predicates over runs recorded from the real    *)
(* package.  A run is a sequence of events                                 *)
(*   call(a, op, mode..) | op(a, kind, file) | acq(a) | rel(a) | ret(a)    *)
(* "acq" is logged after the acquiring call returned and "rel" before the  *)
(* releasing call is made; "op" events are the file operations the shim    *)
(* observed.  The hold interval of an API call is [acq, rel] when the      *)
(* caller holds the lock itself, and [first, last] body operation (read /  *)
(* write / writeat / truncate on the locked file) for Read / Write /       *)
(* Transform, whose locking is internal.  C06: two intervals on the same   *)
(* file overlap only if both are readers.                                  *)
(***************************************************************************)
EXTENDS Naturals, Sequences, FiniteSets, TLC, Json

CONSTANTS K
Runs == ndJsonDeserialize("traces.ndjson")
VARIABLE t
Init == t \in 1..K /\ t <= Len(Runs)
Next == t + K <= Len(Runs) /\ t' = t + K
Spec == Init /\ [][Next]_t

R == Runs[t]
Evs == R.events
Calls == {i \in 1..Len(Evs) : Evs[i].ev = "call"}
RetOf(i) == LET js == {j \in (i+1)..Len(Evs) : Evs[j].ev = "ret" /\ Evs[j].a = Evs[i].a} IN
            IF js = {} THEN Len(Evs) + 1 ELSE CHOOSE j \in js : \A k \in js : j <= k
\* "dir": the path is a directory (read locks work on it; a Mutex or an open for writing that claims it must exclude them)
Dom(i) == IF Evs[i].mode \in {"rdir", "wdir", "dir"} THEN "dir" ELSE IF Evs[i].op = "mutex" THEN "mutex" ELSE IF Evs[i].mode \in {"cf", "wf"} THEN "fifo"
          ELSE IF Evs[i].mode \in {"excl", "wnew", "rnew"} THEN "new" ELSE "data"
\* every open for writing, whatever other flags it carries (O_APPEND, O_CREATE|O_EXCL on a file that did not exist, ...)
Writer(i) == Evs[i].op \in {"write", "transform", "mutex"}
             \/ (Evs[i].op = "hold" /\ Evs[i].mode \in {"w", "create", "wx", "cf", "wf", "excl", "wnew", "wa", "wdir"})
BodyKinds == {"read", "write", "writeat", "truncate", "readat"}
Body(i) == {k \in i..(RetOf(i) - 1) : /\ k <= Len(Evs) /\ Evs[k].a = Evs[i].a
                                     /\ \/ Evs[k].ev \in {"acq", "rel"}
                                        \/ (Evs[k].ev = "op" /\ Evs[k].file = Dom(i) /\ Evs[k].op \in BodyKinds)}
Min(S) == CHOOSE x \in S : \A y \in S : x <= y
Max(S) == CHOOSE x \in S : \A y \in S : x >= y

L1NoOverlap ==
  LET span == [i \in Calls |-> IF Body(i) = {} THEN <<0, 0>> ELSE <<Min(Body(i)), Max(Body(i))>>] IN
  \A i, j \in Calls :
     (i < j /\ Evs[i].a # Evs[j].a /\ Dom(i) = Dom(j) /\ (Writer(i) \/ Writer(j)) /\ span[i][1] > 0 /\ span[j][1] > 0)
        => (span[i][2] < span[j][1] \/ span[j][2] < span[i][1])
\* "read locks ... may be shared among readers": reported per run (an existential statement over the explored
\* schedules: the check requires at least one run in which two readers really overlapped)
ReadersOverlap ==
  LET span == [i \in Calls |-> IF Body(i) = {} THEN <<0, 0>> ELSE <<Min(Body(i)), Max(Body(i))>>] IN
  \E i, j \in Calls : /\ i < j /\ Evs[i].a # Evs[j].a /\ Dom(i) = Dom(j) /\ ~Writer(i) /\ ~Writer(j)
                      /\ span[i][1] > 0 /\ span[j][1] > 0
                      /\ ~(span[i][2] < span[j][1] \/ span[j][2] < span[i][1])
NoteShared == ReadersOverlap => PrintT(<<"SHARED", t>>)
\* the unlocked side file every write-lock holder stamps and re-reads (no other holder was inside)
L1Witness == R.l1 = <<>>
\* no deadlock on the lock, no panic, every call returned
L1Terminates == R.end = "done"
\* C07: if the function or any single write step of Transform reports an error the previous contents remain
L1FaultKeepsOld == (R.family = "Fault" /\ R.inject.kind # "none") =>
     /\ R.final = R.init
     /\ \A i \in 1..Len(Evs) : (Evs[i].ev = "ret" /\ Evs[i].op \in {"transform", "write"}) => Evs[i].res = "err"
\* ... and without an injected error a lone Transform publishes exactly f(old)
L1CleanTransform == (R.family = "Fault" /\ R.inject.kind = "none") =>
     \A i \in 1..Len(Evs) : (Evs[i].ev = "ret" /\ Evs[i].op \in {"transform", "write"}) => Evs[i].res = "ok"

Bad(name) == PrintT(<<"BAD", name, t>>)
InvL1NoOverlap      == (L1NoOverlap \/ Bad("L1NoOverlap")) /\ NoteShared
InvL1Witness        == L1Witness \/ Bad("L1Witness")
InvL1Terminates     == L1Terminates \/ Bad("L1Terminates")
InvL1FaultKeepsOld  == L1FaultKeepsOld \/ Bad("L1FaultKeepsOld")
InvL1CleanTransform == L1CleanTransform \/ Bad("L1CleanTransform")
=============================================================================
