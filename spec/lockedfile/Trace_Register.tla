--------------------------- MODULE Trace_Register ---------------------------
(***************************************************************************)
(* C07: linearizability of Read / Write / Transform on one lockedfile,     *)
(* decided by TLC.  The file is a register; every recorded run is a        *)
(* history of call / ret events (log order: "call" logged before the call  *)
(* is made, "ret" after it returned).  Between two events any pending call *)
(* may take its linearization step (a silent action): Read fixes the value *)
(* it will return, Write(v) installs v, Transform(kind, tok) installs      *)
(* f(current value).  A run is accepted iff some placement of the          *)
(* linearization points explains every returned value - TLC's search over  *)
(* the silent steps.  One initial state per run; reaching the end of a     *)
(* run prints <<"OK", t>>; runs that never print OK are rejected.          *)
(***************************************************************************)
EXTENDS Naturals, Sequences, FiniteSets, TLC, Json

Runs == ndJsonDeserialize("traces.ndjson")

\* ex: the file is known to exist (it existed at the start, or a call that needs or makes it succeeded).  Nothing in
\* the interface removes a file: once known to exist it must still be there at the end.  (An absent file may come
\* into being by a call that then fails - Transform creates what it is about to read - so absence is not tracked
\* the other way round.)
VARIABLES t, l, val, pend, ex
vars == <<t, l, val, pend, ex>>

Apply(kind, tok, old) ==
  CASE kind = "append" -> Append(old, tok)
    [] kind = "chop"   -> IF old = <<>> THEN old ELSE SubSeq(old, 1, Len(old) - 1)
    [] kind = "clear"  -> <<>>                                    \* the function returns nothing at all: the file becomes empty
    [] kind = "same"   -> [k \in 1..Len(old) |-> tok]
    [] kind = "grow"   -> [k \in 1..(Len(old) + 1) |-> tok]
    [] kind = "grow3"  -> [k \in 1..(Len(old) + 3) |-> tok]      \* a tail of several bytes: its write can be short
    [] OTHER -> old

ApiEvents(r) == SelectSeq(r.events, LAMBDA e : e.ev \in {"call", "ret"} /\ e.op \in {"read", "write", "transform"})
Evs == ApiEvents(Runs[t])
ActorsOf(r) == {r.events[k].a : k \in 1..Len(r.events)}
Idle == [st |-> "idle", op |-> "-", v |-> <<>>, kind |-> "-", tok |-> "-", res |-> <<>>]

Init == /\ t \in 1..Len(Runs) /\ l = 1 /\ val = Runs[t].init /\ ex = ~Runs[t].init_absent
        /\ pend = [a \in ActorsOf(Runs[t]) |-> Idle]

Call == /\ l <= Len(Evs) /\ Evs[l].ev = "call" /\ pend[Evs[l].a].st = "idle"
        /\ pend' = [pend EXCEPT ![Evs[l].a] = [st |-> "called", op |-> Evs[l].op, v |-> Evs[l].v, kind |-> Evs[l].kind,
                                              tok |-> Evs[l].tok, res |-> <<>>]]
        /\ l' = l + 1 /\ UNCHANGED <<t, val, ex>>
\* the return event that will close actor a's pending call (known from the recorded history: used to prune
\* the search, not to decide it - a step that contradicts it could never be completed to an accepted run)
NextRet(a) == LET js == {j \in l..Len(Evs) : Evs[j].ev = "ret" /\ Evs[j].a = a} IN
              IF js = {} THEN [res |-> "none", v |-> <<>>] ELSE Evs[CHOOSE j \in js : \A k \in js : j <= k]
\* the silent linearization point of a pending call.  Placing it just before some return event loses no
\* generality (a linearization point can always be postponed past call events of other actors).
Lin(a) == /\ pend[a].st = "called"
          /\ l <= Len(Evs) /\ Evs[l].ev = "ret"
          /\ NextRet(a).res # "err"
          /\ (pend[a].op = "read" => NextRet(a).res = "val" /\ NextRet(a).v = val)
          /\ CASE pend[a].op = "read"      -> val' = val /\ pend' = [pend EXCEPT ![a].st = "lin", ![a].res = val]
               [] pend[a].op = "write"     -> val' = pend[a].v /\ pend' = [pend EXCEPT ![a].st = "lin"]
               [] pend[a].op = "transform" -> val' = Apply(pend[a].kind, pend[a].tok, val) /\ pend' = [pend EXCEPT ![a].st = "lin"]
          /\ ex' = TRUE
          /\ UNCHANGED <<t, l>>
\* a call that reports an error took no effect (it may still have a linearization point: none needed)
Ret == /\ l <= Len(Evs) /\ Evs[l].ev = "ret"
       /\ LET a == Evs[l].a IN
          /\ \/ (Evs[l].res = "err" /\ pend[a].st = "called")
             \/ (Evs[l].res = "ok" /\ pend[a].st = "lin")
             \/ (Evs[l].res = "val" /\ pend[a].st = "lin" /\ pend[a].res = Evs[l].v)
          /\ pend' = [pend EXCEPT ![a] = Idle]
       /\ l' = l + 1 /\ UNCHANGED <<t, val, ex>>
\* end of the history: the register must hold what the file finally held
Accept == /\ l = Len(Evs) + 1 /\ \A a \in DOMAIN pend : pend[a].st = "idle"
          /\ val = Runs[t].final
          /\ (Runs[t].final_absent => ~ex)
          /\ PrintT(<<"OK", t>>)
          /\ l' = l + 1 /\ UNCHANGED <<t, val, pend, ex>>
Next == Call \/ Ret \/ Accept \/ \E a \in DOMAIN pend : Lin(a)
Spec == Init /\ [][Next]_vars
=============================================================================
