\* sanity: run with MC_Misspell.tla; TLC must report InvReflexive / InvDistance violated
\* (equal strings, distance 0, not accepted)
SPECIFICATION Spec
CONSTANTS
  N = 2
  Alphabet = {1, 2, 3}
  Emit = FALSE
  Bug = "NoEqual"
INVARIANTS InvReflexive InvSymmetric InvNeighbours InvDistance InvLength InvCongruence InvTwoSteps InvSwapCost
CHECK_DEADLOCK FALSE
