\* sanity: run with MC_Misspell.tla; TLC must report InvNeighbours / InvDistance violated
\* (the transposition of two adjacent runes left out of the statement-shaped definition)
SPECIFICATION Spec
CONSTANTS
  N = 2
  Alphabet = {1, 2, 3}
  Emit = FALSE
  Bug = "NoSwap"
INVARIANTS InvReflexive InvSymmetric InvNeighbours InvDistance InvLength InvCongruence InvTwoSteps InvSwapCost
CHECK_DEADLOCK FALSE
