\* quick bound; checks/x03.py generates the cfg per tier (N = 4 quick, N = 5 thorough)
SPECIFICATION Spec
CONSTANTS
  N = 4
  Alphabet = {1, 2, 3}
  Emit = FALSE
  Bug = "none"
INVARIANTS InvReflexive InvSymmetric InvNeighbours InvDistance InvLength InvCongruence InvTwoSteps InvSwapCost
CHECK_DEADLOCK FALSE
