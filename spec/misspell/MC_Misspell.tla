---------------------------- MODULE MC_Misspell -----------------------------
(***************************************************************************)
(* Generator: the states are all ordered pairs <<a, b>> of strings of at   *)
(* most N runes over Alphabet, each reached once (a grows while b is       *)
(* empty, then b grows).  In every state TLC checks the laws of the        *)
(* statement on the specification and emits the pair with the predicted    *)
(* answer; harness/drivers/misspell replays it into the real function.     *)
(***************************************************************************)
EXTENDS Misspell, TLC, Json

CONSTANTS N,         \* longest string
          Alphabet,  \* runes (naturals)
          Emit

VARIABLES a, b
vars == <<a, b>>

Case(x, y) == [a |-> x, b |-> y, expect |-> AlmostEqual(x, y)]
EmitCase(x, y) == IF Emit THEN PrintT(<<"EMIT", ToJson(Case(x, y))>>) ELSE TRUE

Init == a = <<>> /\ b = <<>> /\ EmitCase(<<>>, <<>>)
Next == \/ /\ b = <<>>
           /\ Len(a) < N
           /\ \E x \in Alphabet : a' = Append(a, x)
           /\ b' = b
           /\ EmitCase(a', b')
        \/ /\ Len(b) < N
           /\ \E x \in Alphabet : b' = Append(b, x)
           /\ a' = a
           /\ EmitCase(a', b')
Spec == Init /\ [][Next]_vars

(***************************************************************************)
(* Laws.                                                                   *)
(***************************************************************************)
\* distance 0 is "at most 1"
InvReflexive == a = b => AlmostEqual(a, b)
InvSymmetric == AlmostEqual(a, b) = AlmostEqual(b, a)
\* the neighbours at distance exactly 1 are the strings obtained by one edit, no more, no less
InvNeighbours == (a # b /\ AlmostEqual(a, b)) = (b \in Neighbours(a, Alphabet))
\* the sentence (L1) and the distance recursion (L2) agree
InvDistance == AlmostEqual(a, b) = Within(a, b, 1, TRUE)
\* one edit changes the length by at most one
InvLength == AlmostEqual(a, b) => Abs(Len(a) - Len(b)) <= 1
\* a common first or last rune does not matter
InvCongruence == \A x \in Alphabet : /\ AlmostEqual(<<x>> \o a, <<x>> \o b) = AlmostEqual(a, b)
                                     /\ AlmostEqual(Append(a, x), Append(b, x)) = AlmostEqual(a, b)
\* two steps: whatever is almost equal to a neighbour of a (neighbours longer than N included) is at most two
\* lengths and four plain edits (a swap is two substitutions) away from a
InvTwoSteps == \A c \in Neighbours(a, Alphabet) \cup {a} :
                  AlmostEqual(c, b) => Abs(Len(a) - Len(b)) <= 2 /\ Within(a, b, 4, FALSE)
\* the distance recursion with and without swaps: a swap is worth two plain edits
InvSwapCost == Within(a, b, 1, TRUE) => Within(a, b, 2, FALSE)
=============================================================================
