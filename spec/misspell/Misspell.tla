------------------------------ MODULE Misspell ------------------------------
(***************************************************************************)
(* internal/misspell.AlmostEqual, as documented:                           *)
(*                                                                         *)
(*   "AlmostEqual reports whether a and b have Damerau-Levenshtein         *)
(*    distance of at most 1.  That is, it reports whether a can be         *)
(*    transformed into b by adding, removing or substituting a single      *)
(*    rune, or by swapping two adjacent runes.  Invalid runes are          *)
(*    considered equal."                                                   *)
(*                                                                         *)
(* A string is a sequence of naturals, one natural per RUNE (not per byte; *)
(* the driver renders a natural as a 1..4 byte UTF-8 sequence, or as some  *)
(* invalid byte: all invalid bytes are the same natural, which is how      *)
(* "invalid runes are considered equal" is modelled).                      *)
(*                                                                         *)
(* Two formulations:                                                       *)
(*   L1  AlmostEqual: the sentence above, one existential per kind of edit *)
(*       (distance 0, i.e. equal strings, is "at most 1")                  *)
(*   L2  Within(a, b, k, swaps): the usual recursive definition of         *)
(*       "distance at most k" (optimal string alignment; for k <= 1 it is  *)
(*       the Damerau-Levenshtein distance)                                 *)
(* and the constructive set of neighbours of a string.  MC_Misspell checks *)
(* that the three agree.                                                   *)
(*                                                                         *)
(* Bug (sanity of the laws, see Bug_*.cfg):                                *)
(*   "NoSwap"   the transposition case is left out of L1                   *)
(*   "NoEqual"  equal strings are not accepted by L1                       *)
(***************************************************************************)
EXTENDS Integers, Sequences

CONSTANT Bug

Abs(n) == IF n < 0 THEN -n ELSE n

\* the four kinds of edit, as functions on strings
Del(a, i) == SubSeq(a, 1, i - 1) \o SubSeq(a, i + 1, Len(a))              \* i \in 1..Len(a)
Ins(a, i, x) == SubSeq(a, 1, i - 1) \o <<x>> \o SubSeq(a, i, Len(a))      \* i \in 1..Len(a)+1
Sub(a, i, x) == [a EXCEPT ![i] = x]                                       \* i \in 1..Len(a)
Swap(a, i) == [a EXCEPT ![i] = a[i + 1], ![i + 1] = a[i]]                 \* i \in 1..Len(a)-1

(***************************************************************************)
(* L1: the statement.                                                      *)
(***************************************************************************)
Removed(a, b) == \E i \in 1..Len(a) : b = Del(a, i)
Added(a, b) == Removed(b, a)
Substituted(a, b) == /\ Len(a) = Len(b)
                     /\ \E i \in 1..Len(a) : a[i] # b[i] /\ \A j \in 1..Len(a) : j # i => a[j] = b[j]
Swapped(a, b) == /\ Len(a) = Len(b)
                 /\ \E i \in 1..(Len(a) - 1) : a[i] # a[i + 1] /\ b = Swap(a, i)

AlmostEqual(a, b) == \/ Bug # "NoEqual" /\ a = b
                     \/ Added(a, b)
                     \/ Removed(a, b)
                     \/ Substituted(a, b)
                     \/ Bug # "NoSwap" /\ Swapped(a, b)

(***************************************************************************)
(* L2: distance at most k, by recursion on the strings.  swaps = FALSE     *)
(* gives the plain Levenshtein distance.                                   *)
(***************************************************************************)
RECURSIVE Within(_, _, _, _)
Within(a, b, k, swaps) ==
    IF k < 0 THEN FALSE
    ELSE IF a = <<>> THEN Len(b) <= k
    ELSE IF b = <<>> THEN Len(a) <= k
    ELSE \/ Head(a) = Head(b) /\ Within(Tail(a), Tail(b), k, swaps)
         \/ Within(Tail(a), b, k - 1, swaps)
         \/ Within(a, Tail(b), k - 1, swaps)
         \/ Within(Tail(a), Tail(b), k - 1, swaps)
         \/ /\ swaps /\ Len(a) >= 2 /\ Len(b) >= 2
            /\ a[1] = b[2] /\ a[2] = b[1]
            /\ Within(Tail(Tail(a)), Tail(Tail(b)), k - 1, swaps)

(***************************************************************************)
(* The strings one edit away from a, built edit by edit (inserted and      *)
(* substituted runes taken from Alpha).                                    *)
(***************************************************************************)
Neighbours(a, Alpha) ==
    ( {Del(a, i) : i \in 1..Len(a)}
      \cup {Ins(a, i, x) : i \in 1..(Len(a) + 1), x \in Alpha}
      \cup {Sub(a, i, x) : i \in 1..Len(a), x \in Alpha}
      \cup {Swap(a, i) : i \in 1..(Len(a) - 1)} ) \ {a}
=============================================================================
