SPECIFICATION Spec
CONSTANTS
  K = 16
  Bug = "none"
INVARIANTS RecNoPanic RecAnswer RecReverse RecL1L2 RecGen
CHECK_DEADLOCK FALSE
