--------------------------- MODULE Trace_Misspell ---------------------------
(***************************************************************************)
(* Validation of records produced by the real misspell.AlmostEqual on      *)
(* seeded random pairs of longer strings (harness/drivers/misspell, mode   *)
(* random).  One record per pair:                                          *)
(*   a, b    the strings, one natural per rune                             *)
(*   got     AlmostEqual(render(a), render(b)) of the real package         *)
(*   rev     AlmostEqual(render(b), render(a))                             *)
(*   panic   whether one of the two calls panicked                         *)
(*   k       how many random edits turned a into b (9: b drawn             *)
(*           independently of a)                                           *)
(* TLC evaluates both formulations of Misspell.tla on every record.        *)
(* Records are independent: the index runs in K lanes.                     *)
(***************************************************************************)
EXTENDS Misspell, TLC, Json

CONSTANTS K

Trace == ndJsonDeserialize("trace.ndjson")

VARIABLE i
vars == <<i>>

Init == i \in 1..K
Next == i + K <= Len(Trace) /\ i' = i + K
Spec == Init /\ [][Next]_vars

Live == i <= Len(Trace)
Ran == Live /\ ~Trace[i].panic

\* A failing record is named on stdout ("BAD", invariant, index).  PrintT is TRUE, so
\* the invariants always hold and TLC ends normally; the BAD lines are the verdict.
Bad(name) == PrintT(<<"BAD", name, i>>)
RecNoPanic == (Live => ~Trace[i].panic) \/ Bad("RecNoPanic")
RecAnswer == (Ran => Trace[i].got = AlmostEqual(Trace[i].a, Trace[i].b)) \/ Bad("RecAnswer")
RecReverse == (Ran => Trace[i].rev = AlmostEqual(Trace[i].a, Trace[i].b)) \/ Bad("RecReverse")
\* the code-shaped formulation, evaluated independently (a disagreement of the two on a long
\* string is a specification problem, not a verdict)
RecL1L2 == (Live => AlmostEqual(Trace[i].a, Trace[i].b) = Within(Trace[i].a, Trace[i].b, 1, TRUE)) \/ Bad("RecL1L2")
\* generator against specification: zero or one edit always gives an almost equal pair, two
\* edits never move the length by more than two (a failure is a harness problem)
RecGen == (Live => /\ (Trace[i].k \in {0, 1} => AlmostEqual(Trace[i].a, Trace[i].b))
                   /\ (Trace[i].k = 0 => Trace[i].a = Trace[i].b)
                   /\ (Trace[i].k <= 2 => Abs(Len(Trace[i].a) - Len(Trace[i].b)) <= Trace[i].k))
             \/ Bad("RecGen")
=============================================================================
