SPECIFICATION MCSpec
CONSTANTS
  Actors <- MCActors
  ActorOrder <- MCActorOrder
  Keys <- MCKeys
  Progs <- MCProgs
  Bug = "NoLock"
  Record = TRUE
  Emit = FALSE
VIEW View
INVARIANTS OncePerKey PublishedOK NoStuck DoReturnsTheValue GetNilOrValue
CHECK_DEADLOCK FALSE
