SPECIFICATION MCFairSpec
CONSTANTS
  Actors <- MCActors
  ActorOrder <- MCActorOrder
  Keys <- MCKeys
  Progs <- MCProgs
  Bug = "none"
  Record = FALSE
  Emit = FALSE

INVARIANTS OncePerKey PublishedOK NoStuck
CHECK_DEADLOCK FALSE
PROPERTY Termination
