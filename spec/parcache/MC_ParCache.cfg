SPECIFICATION MCSpec
CONSTANTS
  Actors <- MCActors
  ActorOrder <- MCActorOrder
  Keys <- MCKeys
  Progs <- MCProgs
  Bug = "none"
  Record = TRUE
  Emit = TRUE
VIEW View
INVARIANTS OncePerKey PublishedOK NoStuck DoReturnsTheValue GetNilOrValue
CHECK_DEADLOCK FALSE
