----------------------------- MODULE MC_ParCache ---------------------------
EXTENDS ParCache, Json
CONSTANTS Emit

MCActors == {"a1", "a2", "a3"}
MCActorOrder == <<"a1", "a2", "a3">>
MCKeys == {"k1", "k2"}
D(k) == [op |-> "do", k |-> k]
G(k) == [op |-> "get", k |-> k]
P(x, y, z) == ("a1" :> x) @@ ("a2" :> y) @@ ("a3" :> z)
MCProgs == {
  P(<<D("k1")>>, <<D("k1")>>, <<G("k1")>>),
  P(<<D("k1")>>, <<D("k1")>>, <<D("k1")>>),
  P(<<D("k1"), G("k1")>>, <<G("k1"), D("k1")>>, <<>>),
  P(<<D("k1"), D("k2")>>, <<D("k2"), D("k1")>>, <<G("k2")>>),
  P(<<D("k1")>>, <<G("k1"), G("k1")>>, <<G("k1"), D("k1")>>)
}

EmitStep == IF Emit /\ hist' # hist
            THEN PrintT(<<"EMIT", ToJson([prog |-> prog, sched |-> hist', events |-> events',
                                          final |-> (\A a \in Actors : pc'[a] = "fin")])>>)
            ELSE TRUE
MCNext == Next /\ EmitStep
MCSpec == Init /\ [][MCNext]_vars
MCFairSpec == MCSpec /\ WF_vars(MCNext)

\* history-based statement of the property on the model (checked without VIEW in the small config)
DoRets == {i \in 1..Len(events) : events[i].e = "DoRet"}
FEnds(k) == {i \in 1..Len(events) : events[i].e = "FEnd" /\ events[i].k = k}
DoReturnsTheValue == \A i \in DoRets : \E j \in FEnds(events[i].k) : j < i /\ events[j].v = events[i].v
GetRets == {i \in 1..Len(events) : events[i].e = "GetRet"}
GetNilOrValue == \A i \in GetRets : events[i].v = Nil \/ \E j \in FEnds(events[i].k) : j < i /\ events[j].v = events[i].v
=============================================================================
