------------------------------ MODULE ParCache -----------------------------
(***************************************************************************)
(* par.Cache (property C10), implementation-shaped (L2).                   *)
(*                                                                         *)
(* One action = one scheduling step of the real code under the cooperative *)
(* scheduler: the operation the actor is parked at (sync.Map load /        *)
(* LoadOrStore, atomic load / store of `done`, Lock of the entry mutex, or *)
(* the user function f) plus the local code up to the next operation.      *)
(*                                                                         *)
(* Do(key, f):  d_load -> [d_los] -> d_done1 -> (return | d_lock ->        *)
(*              d_done2 -> (unlock, return | f: d_f -> d_store -> unlock,  *)
(*              return))                                                    *)
(* Get(key):    g_load -> (nil | g_done -> (nil | result))                 *)
(***************************************************************************)
EXTENDS Naturals, Sequences, FiniteSets, TLC

CONSTANTS Actors, ActorOrder, Keys, Progs, Bug, Record
\* Progs: set of functions Actors -> Seq([op: "do"|"get", k: Keys]);  Bug: "none" | "NoSecondCheck" | "NoLock" | "DoneBeforeResult"

VARIABLES prog, pc, ip, entry, done, result, mu, fcalls, hist, events
vars == <<prog, pc, ip, entry, done, result, mu, fcalls, hist, events>>

Nil == "nil"
Val(a, k) == k \o ":" \o a            \* the value actor a's invocation of f returns for key k
Cur(a) == prog[a][ip[a]]

Init == /\ prog \in Progs
        /\ pc = [a \in Actors |-> "idle"] /\ ip = [a \in Actors |-> 0]
        /\ entry = [k \in Keys |-> FALSE]      \* cacheEntry created in the map
        /\ done = [k \in Keys |-> FALSE]
        /\ result = [k \in Keys |-> Nil]
        /\ mu = [k \in Keys |-> "free"]
        /\ fcalls = [k \in Keys |-> 0]
        /\ hist = <<>> /\ events = <<>>

Ev(e, a, k, v) == [e |-> e, a |-> a, k |-> k, v |-> v]
Log(evs) == events' = IF Record THEN events \o evs ELSE <<>>
Note(a) == hist' = IF Record THEN Append(hist, [a |-> a]) ELSE hist

\* after returning from an operation the actor immediately issues its next one
\* (call event logged, parked at the first shim operation) or is finished
Advance(a, evs) ==
  IF ip[a] < Len(prog[a])
  THEN LET o == prog[a][ip[a] + 1] IN
       /\ ip' = [ip EXCEPT ![a] = @ + 1]
       /\ pc' = [pc EXCEPT ![a] = IF o.op = "do" THEN "d_load" ELSE "g_load"]
       /\ Log(evs \o <<Ev(IF o.op = "do" THEN "DoCall" ELSE "GetCall", a, o.k, Nil)>>)
  ELSE /\ pc' = [pc EXCEPT ![a] = "fin"] /\ UNCHANGED ip /\ Log(evs)

\* spawning: every actor runs up to its first operation before anybody is scheduled,
\* in actor order (not scheduling decisions, so not part of hist)
Started == \A a \in Actors : pc[a] # "idle"
Idx(a) == CHOOSE i \in 1..Len(ActorOrder) : ActorOrder[i] = a
Start(a) == /\ pc[a] = "idle" /\ \A b \in Actors : (Idx(b) < Idx(a)) => pc[b] # "idle"
            /\ Advance(a, <<>>)
            /\ UNCHANGED <<prog, entry, done, result, mu, fcalls, hist>>

Goto(a, l) == pc' = [pc EXCEPT ![a] = l] /\ UNCHANGED ip

DLoad(a) == /\ pc[a] = "d_load"
            /\ Goto(a, IF entry[Cur(a).k] THEN "d_done1" ELSE "d_los")
            /\ Log(<<>>) /\ UNCHANGED <<entry, done, result, mu, fcalls>>
DLos(a)  == /\ pc[a] = "d_los"
            /\ entry' = [entry EXCEPT ![Cur(a).k] = TRUE]
            /\ Goto(a, "d_done1")
            /\ Log(<<>>) /\ UNCHANGED <<done, result, mu, fcalls>>
DDone1(a) == /\ pc[a] = "d_done1"
             /\ LET k == Cur(a).k IN
                IF done[k] THEN Advance(a, <<Ev("DoRet", a, k, result[k])>>)
                ELSE Goto(a, IF Bug = "NoLock" THEN "d_done2" ELSE "d_lock") /\ Log(<<>>)
             /\ UNCHANGED <<entry, done, result, mu, fcalls>>
DLock(a) == /\ pc[a] = "d_lock" /\ mu[Cur(a).k] = "free"
            /\ mu' = [mu EXCEPT ![Cur(a).k] = a]
            /\ Goto(a, "d_done2")
            /\ Log(<<>>) /\ UNCHANGED <<entry, done, result, fcalls>>
Unlock(a, k) == mu' = [mu EXCEPT ![k] = IF Bug = "NoLock" THEN @ ELSE "free"]
DDone2(a) == /\ pc[a] = "d_done2"
             /\ LET k == Cur(a).k IN
                IF done[k] /\ Bug # "NoSecondCheck"
                THEN /\ Unlock(a, k) /\ Advance(a, <<Ev("DoRet", a, k, result[k])>>)
                     /\ UNCHANGED <<fcalls, done>>
                ELSE /\ fcalls' = [fcalls EXCEPT ![k] = @ + 1]          \* f is called: it starts and yields
                     /\ done' = IF Bug = "DoneBeforeResult" THEN [done EXCEPT ![k] = TRUE] ELSE done
                     /\ Goto(a, "d_f") /\ Log(<<Ev("FStart", a, k, Nil)>>)
                     /\ UNCHANGED mu
             /\ UNCHANGED <<entry, result>>
DF(a) == /\ pc[a] = "d_f"                                               \* f returns; e.result = value
         /\ result' = [result EXCEPT ![Cur(a).k] = Val(a, Cur(a).k)]
         /\ Goto(a, "d_store") /\ Log(<<Ev("FEnd", a, Cur(a).k, Val(a, Cur(a).k))>>)
         /\ UNCHANGED <<entry, done, mu, fcalls>>
DStore(a) == /\ pc[a] = "d_store"                                       \* atomic store done=1; unlock; return
             /\ LET k == Cur(a).k IN
                /\ done' = [done EXCEPT ![k] = TRUE]
                /\ Unlock(a, k)
                /\ Advance(a, <<Ev("DoRet", a, k, result[k])>>)
             /\ UNCHANGED <<entry, result, fcalls>>
GLoad(a) == /\ pc[a] = "g_load"
            /\ IF entry[Cur(a).k] THEN Goto(a, "g_done") /\ Log(<<>>)
               ELSE Advance(a, <<Ev("GetRet", a, Cur(a).k, Nil)>>)
            /\ UNCHANGED <<entry, done, result, mu, fcalls>>
GDone(a) == /\ pc[a] = "g_done"
            /\ LET k == Cur(a).k IN
               Advance(a, <<Ev("GetRet", a, k, IF done[k] THEN result[k] ELSE Nil)>>)
            /\ UNCHANGED <<entry, done, result, mu, fcalls>>

Step(a) == /\ Started /\ Note(a) /\ UNCHANGED prog
           /\ (DLoad(a) \/ DLos(a) \/ DDone1(a) \/ DLock(a) \/ DDone2(a) \/ DF(a) \/ DStore(a) \/ GLoad(a) \/ GDone(a))
Next == (\E a \in Actors : Start(a)) \/ (\E a \in Actors : Step(a))
Spec == Init /\ [][Next]_vars
FairSpec == Spec /\ WF_vars(Next)

----------------------------------------------------------------------------
\* the statement, on the model (history-free formulation so that it can be checked with the VIEW)
OncePerKey   == \A k \in Keys : fcalls[k] <= 1
\* a published result is the value of the single invocation
PublishedOK  == \A k \in Keys : done[k] => \E a \in Actors : result[k] = Val(a, k)
\* a Do about to return through the fast path / second check returns a published value
NoStuck      == (\A a \in Actors : pc[a] = "fin" \/ (pc[a] = "d_lock" /\ mu[Cur(a).k] # "free"))
                   => (\A a \in Actors : pc[a] = "fin")
GetNeverLocks == \A a \in Actors : (pc[a] \in {"g_load", "g_done"}) => TRUE   \* by construction: no lock step in Get
Termination  == <>(\A a \in Actors : pc[a] = "fin")
View == <<prog, pc, ip, entry, done, result, mu, fcalls>>
=============================================================================
