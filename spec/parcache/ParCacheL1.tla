----------------------------- MODULE ParCacheL1 ----------------------------
(***************************************************************************)
(* Contract of par.Cache (property C10) over observable events only:       *)
(*   DoCall(a,k)  FStart(a,k)  FEnd(a,k,v)  DoRet(a,k,v)                    *)
(*   GetCall(a,k) GetRet(a,k,v,blocked)     End(status)                    *)
(* Transitions are permissive; the statement's sentences are invariants,   *)
(* so a rejected trace names the sentence that was broken.                 *)
(***************************************************************************)
EXTENDS Naturals, Sequences, FiniteSets

VARIABLES fcount, fval, doRetSeen, getMust, doOK, getOK, getBlocked, ended
l1vars == <<fcount, fval, doRetSeen, getMust, doOK, getOK, getBlocked, ended>>

Nil == "nil"
Empty == [x \in {} |-> 0]
Get(f, x, d) == IF x \in DOMAIN f THEN f[x] ELSE d
Put(f, x, v) == [y \in DOMAIN f \cup {x} |-> IF y = x THEN v ELSE f[y]]

L1Init == /\ fcount = Empty /\ fval = Empty /\ doRetSeen = {} /\ getMust = Empty
          /\ doOK = TRUE /\ getOK = TRUE /\ getBlocked = FALSE /\ ended = "running"
L1Reset == /\ fcount' = Empty /\ fval' = Empty /\ doRetSeen' = {} /\ getMust' = Empty
           /\ doOK' = TRUE /\ getOK' = TRUE /\ getBlocked' = FALSE /\ ended' = "running"

DoCall(a, k) == UNCHANGED l1vars
FStart(a, k) == /\ fcount' = Put(fcount, k, Get(fcount, k, 0) + 1)
                /\ UNCHANGED <<fval, doRetSeen, getMust, doOK, getOK, getBlocked, ended>>
FEnd(a, k, v) == /\ fval' = Put(fval, k, v)
                 /\ UNCHANGED <<fcount, doRetSeen, getMust, doOK, getOK, getBlocked, ended>>
\* every Do returns the value the single invocation returned, and not before it completed
DoRet(a, k, v) == /\ doOK' = (doOK /\ k \in DOMAIN fval /\ fval[k] = v)
                  /\ doRetSeen' = doRetSeen \cup {k}
                  /\ UNCHANGED <<fcount, fval, getMust, getOK, getBlocked, ended>>
\* a Get that starts after some Do for the key has returned must see the value
GetCall(a, k) == /\ getMust' = Put(getMust, a, k \in doRetSeen)
                 /\ UNCHANGED <<fcount, fval, doRetSeen, doOK, getOK, getBlocked, ended>>
GetRet(a, k, v, blocked) ==
     /\ getOK' = (getOK /\ IF v = Nil THEN (~Get(getMust, a, FALSE) \/ (k \in DOMAIN fval /\ fval[k] = Nil))   \* nil: not yet computed, or the value is nil
                                      ELSE k \in DOMAIN fval /\ fval[k] = v)
     /\ getBlocked' = (getBlocked \/ blocked)
     /\ UNCHANGED <<fcount, fval, doRetSeen, getMust, doOK, ended>>
End(status) == ended' = status /\ UNCHANGED <<fcount, fval, doRetSeen, getMust, doOK, getOK, getBlocked>>

OncePerKey       == \A k \in DOMAIN fcount : fcount[k] <= 1
DoReturnsTheValue == doOK
GetNilOrTheValue == getOK
GetNeverBlocks   == ~getBlocked
Terminates       == ended \in {"running", "done"}
=============================================================================
