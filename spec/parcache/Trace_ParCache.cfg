SPECIFICATION Spec
CONSTANTS K = 16
INVARIANTS InvOncePerKey InvDoReturnsTheValue InvGetNilOrTheValue InvGetNeverBlocks InvTerminates
CHECK_DEADLOCK FALSE
