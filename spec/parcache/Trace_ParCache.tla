--------------------------- MODULE Trace_ParCache --------------------------
(* Validation of event traces of the real par.Cache against ParCacheL1; one  *)
(* line of traces.ndjson per run, lanes over runs, one state per event.       *)
EXTENDS ParCacheL1, TLC, Json

CONSTANTS K
Traces == ndJsonDeserialize("traces.ndjson")

VARIABLES t, pos
vars == <<t, pos, fcount, fval, doRetSeen, getMust, doOK, getOK, getBlocked, ended>>

Init == /\ t \in 1..K /\ t <= Len(Traces) /\ pos = 0 /\ L1Init

Event == LET ev == Traces[t].events[pos + 1] IN
  /\ pos < Len(Traces[t].events)
  /\ pos' = pos + 1 /\ t' = t
  /\ CASE ev.e = "DoCall"  -> DoCall(ev.a, ev.k)
       [] ev.e = "FStart"  -> FStart(ev.a, ev.k)
       [] ev.e = "FEnd"    -> FEnd(ev.a, ev.k, ev.v)
       [] ev.e = "DoRet"   -> DoRet(ev.a, ev.k, ev.v)
       [] ev.e = "GetCall" -> GetCall(ev.a, ev.k)
       [] ev.e = "GetRet"  -> GetRet(ev.a, ev.k, ev.v, ev.b)
       [] ev.e = "End"     -> End(ev.v)

NextTrace == /\ pos = Len(Traces[t].events) /\ t + K <= Len(Traces)
             /\ t' = t + K /\ pos' = 0 /\ L1Reset
Next == Event \/ NextTrace
Spec == Init /\ [][Next]_vars

Bad(name) == PrintT(<<"BAD", name, t>>)
InvOncePerKey        == OncePerKey \/ Bad("OncePerKey")
InvDoReturnsTheValue == DoReturnsTheValue \/ Bad("DoReturnsTheValue")
InvGetNilOrTheValue  == GetNilOrTheValue \/ Bad("GetNilOrTheValue")
InvGetNeverBlocks    == GetNeverBlocks \/ Bad("GetNeverBlocks")
InvTerminates        == Terminates \/ Bad("Terminates")
=============================================================================
