SPECIFICATION MCSpec
CONSTANTS
  Items <- MCItems
  Graphs <- MCGraphs
  MaxN = 3
  Bug = "NoBroadcast"
  Record = TRUE
  Emit = FALSE
VIEW View
INVARIANTS AtMostOnce OnlyAdded AtMostN ReturnMeansDone NoStuck TypeOK
CHECK_DEADLOCK FALSE
