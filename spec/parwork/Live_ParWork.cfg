SPECIFICATION MCFairSpec
CONSTANTS
  Items <- MCItems
  Graphs <- MCGraphs
  MaxN = 3
  Bug = "none"
  Record = FALSE
  Emit = FALSE

INVARIANTS AtMostOnce OnlyAdded AtMostN ReturnMeansDone NoStuck TypeOK
CHECK_DEADLOCK FALSE
PROPERTY Termination
