SPECIFICATION MCSpec
CONSTANTS
  Items <- MCItems
  Graphs <- MCGraphs
  MaxN = 3
  Bug = "none"
  Record = TRUE
  Emit = TRUE
VIEW View
INVARIANTS AtMostOnce OnlyAdded AtMostN ReturnMeansDone NoStuck TypeOK
CHECK_DEADLOCK FALSE
