----------------------------- MODULE MC_ParWork ----------------------------
(* Bounded instance + schedule generator: one emitted case per transition. *)
EXTENDS ParWork, Json

CONSTANTS Emit

a == "a"
b == "b"
c == "c"
d == "d"
MCItems == {a, b, c, d}
Succ(fa, fb, fc, fd) == (a :> fa) @@ (b :> fb) @@ (c :> fc) @@ (d :> fd)
MCGraphs == {
  [succ |-> Succ(<<>>, <<>>, <<>>, <<>>),          init |-> <<a>>],              \* single item
  [succ |-> Succ(<<>>, <<>>, <<>>, <<>>),          init |-> <<a, b, a, c>>],     \* duplicates before Do
  [succ |-> Succ(<<b>>, <<c>>, <<d>>, <<>>),       init |-> <<a>>],              \* chain
  [succ |-> Succ(<<b, c>>, <<d>>, <<d>>, <<>>),    init |-> <<a>>],              \* diamond
  [succ |-> Succ(<<b, c, b>>, <<d, a>>, <<d>>, <<>>), init |-> <<a, a>>],        \* cycle + duplicate adds
  [succ |-> Succ(<<a>>, <<>>, <<>>, <<>>),         init |-> <<a, b>>],           \* self loop
  [succ |-> Succ(<<>>, <<>>, <<>>, <<>>),          init |-> <<>>]                \* nothing added: Do returns at once
}

EmitStep == IF Emit /\ hist' # hist
            THEN PrintT(<<"EMIT", ToJson([n |-> n, graph |-> g, sched |-> hist', events |-> events',
                                          final |-> (\A r \in Active : pc'[r] = "done")])>>)
            ELSE TRUE
MCNext == Next /\ EmitStep
MCSpec == Init /\ [][MCNext]_vars
MCFairSpec == MCSpec /\ WF_vars(MCNext)
=============================================================================
