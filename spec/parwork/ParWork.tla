------------------------------ MODULE ParWork ------------------------------
(***************************************************************************)
(* par.Work (property C09), implementation-shaped (L2).                    *)
(*                                                                         *)
(* One action = one scheduling step of the real code under the cooperative *)
(* scheduler: a step starts where an actor acquires w.mu (or is resumed in *)
(* f) and runs to its next blocking point.  Variables mirror work.go:      *)
(* todo (a sequence, removal = swap with last, index chosen by rand.Intn), *)
(* added, waiting, running = N, the condition variable's wait queue.       *)
(*                                                                         *)
(*   pc[r] = "init"  main, before Do: the Add calls made before the run    *)
(*           "lock"  at the top of the runner loop, about to Lock          *)
(*           "fy"    inside f(item), after it started                      *)
(*           "add"   inside f(item), about to Lock in Add(Head(addq[r]))   *)
(*           "wait"  in cond.Wait (enabled once signalled)                 *)
(*           "done"  runner returned                                       *)
(*                                                                         *)
(* Bug switches give named faulty variants that TLC must reject.           *)
(***************************************************************************)
EXTENDS Naturals, Sequences, FiniteSets, TLC

CONSTANTS Items,        \* universe of items
          MaxN,         \* runners 0..n-1, n chosen in 1..MaxN; runner 0 is the caller of Do
          Graphs,       \* set of records [succ |-> [Items -> Seq(Items)], init |-> Seq(Items)]
          Record,       \* TRUE: keep the history variables hist / events (generator); FALSE: liveness checking
          Bug           \* "none" | "NoBroadcast" | "NoDedupe" | "EarlyDone" | "NoSignal" | "ExtraRunner"

VARIABLES n, g, pc, todo, added, waiting, waitq, sig, cur, addq, initq,
          started, finished, doReturned, hist, events

vars == <<n, g, pc, todo, added, waiting, waitq, sig, cur, addq, initq, started, finished, doReturned, hist, events>>

Runners == 0..(MaxN - 1 + (IF Bug = "ExtraRunner" THEN 1 ELSE 0))
Active  == {r \in Runners : r < n + (IF Bug = "ExtraRunner" THEN 1 ELSE 0)}
Name(r) == IF r = 0 THEN "main" ELSE "g" \o ToString(r)
NoItem  == "-"

Ev(e, r, x) == [e |-> e, r |-> Name(r), x |-> x]

Init == /\ n \in 1..MaxN
        /\ g \in Graphs
        /\ pc = [r \in Runners |-> IF r = 0 /\ g.init # <<>> THEN "init" ELSE "lock"]
        /\ todo = <<>> /\ added = {} /\ waiting = 0 /\ waitq = <<>>
        /\ sig = [r \in Runners |-> FALSE]
        /\ cur = [r \in Runners |-> NoItem]
        /\ addq = [r \in Runners |-> <<>>]
        /\ initq = g.init
        /\ started = [x \in Items |-> 0] /\ finished = [x \in Items |-> 0]
        /\ doReturned = FALSE
        /\ hist = <<>>
        /\ events = IF g.init = <<>> /\ Record THEN <<Ev("DoCall", 0, NoItem)>> ELSE <<>>

RemoveAt(s, i) == \* work.go: todo[i] = todo[last]; todo = todo[:last]
  LET s2 == IF i = Len(s) THEN s ELSE [s EXCEPT ![i] = s[Len(s)]] IN SubSeq(s2, 1, Len(s) - 1)
DropAt(s, i) == SubSeq(s, 1, i-1) \o SubSeq(s, i+1, Len(s))
Note(r, ints) == hist' = IF Record THEN Append(hist, [a |-> Name(r), ints |-> ints]) ELSE hist
Rec(evs) == IF Record THEN evs ELSE <<>>

\* Add(x) executed by runner r; evs = events logged so far in this step
DoAdd(r, x, evs, ints, rest(_, _)) ==
  IF x \in added /\ Bug # "NoDedupe"
  THEN /\ UNCHANGED <<added, todo, waitq, sig>>
       /\ rest(evs, ints)
  ELSE /\ added' = added \cup {x}
       /\ todo' = Append(todo, x)
       /\ IF waiting > 0 /\ waitq # <<>> /\ Bug # "NoSignal"
          THEN \E j \in 1..Len(waitq) :
                 /\ sig' = [sig EXCEPT ![waitq[j]] = TRUE]
                 /\ waitq' = DropAt(waitq, j)
                 /\ rest(evs, IF Len(waitq) > 1 THEN Append(ints, j - 1) ELSE ints)
          ELSE /\ UNCHANGED <<waitq, sig>>
               /\ rest(evs, ints)

\* the Add calls made before Do; after the last one main calls Do(n, f), which starts
\* the other runners and becomes runner 0 (no scheduling point in between)
InitStep ==
  /\ pc[0] = "init" /\ initq # <<>>
  /\ initq' = Tail(initq)
  /\ pc' = [pc EXCEPT ![0] = IF Tail(initq) = <<>> THEN "lock" ELSE "init"]
  /\ DoAdd(0, Head(initq), Append(events, Ev("AddCall", 0, Head(initq))), <<>>,
           LAMBDA evs, ints : /\ events' = Rec(IF Tail(initq) = <<>> THEN Append(evs, Ev("DoCall", 0, NoItem)) ELSE evs)
                              /\ Note(0, ints))
  /\ UNCHANGED <<n, g, waiting, cur, addq, started, finished, doReturned>>

\* The runner's critical section, entered from the loop top or from a wake-up.
Check(r) ==
  /\ r \in Active /\ pc[0] # "init"
  /\ \/ pc[r] = "lock"
     \/ pc[r] = "wait" /\ sig[r]
  /\ LET w0 == IF pc[r] = "wait" THEN waiting - 1 ELSE waiting IN
     IF todo # <<>>
     THEN \E i \in 1..Len(todo) :
            /\ todo' = RemoveAt(todo, i)
            /\ cur' = [cur EXCEPT ![r] = todo[i]]
            /\ started' = [started EXCEPT ![todo[i]] = @ + 1]
            /\ pc' = [pc EXCEPT ![r] = "fy"]
            /\ waiting' = w0
            /\ sig' = [sig EXCEPT ![r] = FALSE]
            /\ events' = Rec(Append(events, Ev("FStart", r, todo[i])))
            /\ Note(r, IF Len(todo) > 1 THEN <<i - 1>> ELSE <<>>)
            /\ UNCHANGED <<waitq, doReturned>>
     ELSE IF (w0 + 1 = n) \/ (Bug = "EarlyDone" /\ w0 + 1 >= n - 1 /\ n > 1)
     THEN \* all runners idle: wake everybody and return
          /\ waiting' = w0 + 1
          /\ pc' = [pc EXCEPT ![r] = "done"]
          /\ IF Bug = "NoBroadcast"
             THEN UNCHANGED <<sig, waitq>>
             ELSE /\ sig' = [q \in Runners |-> IF \E k \in 1..Len(waitq) : waitq[k] = q THEN TRUE
                                                ELSE IF q = r THEN FALSE ELSE sig[q]]
                  /\ waitq' = <<>>
          /\ doReturned' = (doReturned \/ r = 0)
          /\ events' = Rec(IF r = 0 THEN Append(events, Ev("DoReturn", 0, NoItem)) ELSE events)
          /\ Note(r, <<>>)
          /\ UNCHANGED <<todo, cur, started>>
     ELSE /\ waiting' = w0 + 1
          /\ pc' = [pc EXCEPT ![r] = "wait"]
          /\ sig' = [sig EXCEPT ![r] = FALSE]
          /\ waitq' = Append(waitq, r)
          /\ Note(r, <<>>)
          /\ UNCHANGED <<todo, cur, started, doReturned, events>>
  /\ UNCHANGED <<n, g, added, addq, initq, finished>>

EndF(r, evs) == Append(evs, Ev("FEnd", r, cur[r]))

\* f(item) resumes after its start: it will call Add for every successor
FBody(r) ==
  /\ r \in Active /\ pc[r] = "fy"
  /\ LET q == g.succ[cur[r]] IN
     IF q = <<>>
     THEN /\ finished' = [finished EXCEPT ![cur[r]] = @ + 1]
          /\ events' = Rec(EndF(r, events))
          /\ pc' = [pc EXCEPT ![r] = "lock"]
          /\ UNCHANGED addq
     ELSE /\ addq' = [addq EXCEPT ![r] = q]
          /\ events' = Rec(Append(events, Ev("AddCall", r, Head(q))))
          /\ pc' = [pc EXCEPT ![r] = "add"]
          /\ UNCHANGED finished
  /\ Note(r, <<>>)
  /\ UNCHANGED <<n, g, todo, added, waiting, waitq, sig, cur, initq, started, doReturned>>

\* one Add(x) from inside f
AddStep(r) ==
  /\ r \in Active /\ pc[r] = "add"
  /\ LET x == Head(addq[r])  rest == Tail(addq[r]) IN
     /\ addq' = [addq EXCEPT ![r] = rest]
     /\ DoAdd(r, x, events, <<>>,
              LAMBDA evs, ints :
                 /\ Note(r, ints)
                 /\ IF rest = <<>>
                    THEN /\ events' = Rec(EndF(r, evs))
                         /\ finished' = [finished EXCEPT ![cur[r]] = @ + 1]
                         /\ pc' = [pc EXCEPT ![r] = "lock"]
                    ELSE /\ events' = Rec(Append(evs, Ev("AddCall", r, Head(rest))))
                         /\ pc' = [pc EXCEPT ![r] = "add"]
                         /\ UNCHANGED finished)
  /\ UNCHANGED <<n, g, waiting, cur, initq, started, doReturned>>

Next == InitStep \/ \E r \in Runners : Check(r) \/ FBody(r) \/ AddStep(r)

Spec     == Init /\ [][Next]_vars
FairSpec == Spec /\ WF_vars(Next)

----------------------------------------------------------------------------
InF(r) == pc[r] \in {"fy", "add"}
AtMostOnce       == \A x \in Items : started[x] <= 1
OnlyAdded        == \A x \in Items : started[x] > 0 => x \in added
AtMostN          == Cardinality({r \in Runners : InF(r)}) <= n
ReturnMeansDone  == doReturned => /\ todo = <<>>
                                  /\ \A r \in Runners : ~InF(r)
                                  /\ \A x \in added : started[x] = 1 /\ finished[x] = 1
NoStuck          == (\A r \in Active : pc[r] = "done" \/ (pc[r] = "wait" /\ ~sig[r]))
                       => (\A r \in Active : pc[r] = "done")
TypeOK           == /\ waiting \in 0..(MaxN + 1) /\ Len(waitq) <= waiting
Termination      == <>(\A r \in Active : pc[r] = "done")

\* hist / events are history variables: hidden from the state identity
View == <<n, g, pc, todo, added, waiting, waitq, sig, cur, addq, initq, started, finished, doReturned>>
=============================================================================
