----------------------------- MODULE ParWorkL1 -----------------------------
(***************************************************************************)
(* Contract of par.Work.Do (property C09) over observable events only:     *)
(*   AddCall(x)   an Add(x) call (before Do, or from inside f)             *)
(*   DoCall       Do(n, f) is called                                        *)
(*   FStart(r,x)  f(x) begins on worker r      FEnd(r,x)  f(x) returned    *)
(*   DoReturn     Do returned                                               *)
(*   End(status)  how the run ended: done | deadlock | budget | panic      *)
(* Any implementation that satisfies the statement produces only traces    *)
(* this machine accepts with all invariants true - whatever its internals. *)
(***************************************************************************)
EXTENDS Naturals, Sequences, FiniteSets

VARIABLES n, added, startCount, endCount, inProgress, doCalled, doReturned,
          startedAfterReturn, returnOK, ended
l1vars == <<n, added, startCount, endCount, inProgress, doCalled, doReturned, startedAfterReturn, returnOK, ended>>

Count(f, x) == IF x \in DOMAIN f THEN f[x] ELSE 0
Bump(f, x)  == [y \in DOMAIN f \cup {x} |-> IF y = x THEN Count(f, x) + 1 ELSE f[y]]

NoCounts == [x \in {} |-> 0]
L1Init(nn) == /\ n = nn /\ added = {} /\ startCount = NoCounts /\ endCount = NoCounts /\ inProgress = {}
              /\ doCalled = FALSE /\ doReturned = FALSE /\ startedAfterReturn = FALSE
              /\ returnOK = TRUE /\ ended = "running"

L1Reset(nn) == /\ n' = nn /\ added' = {} /\ startCount' = NoCounts /\ endCount' = NoCounts /\ inProgress' = {}
               /\ doCalled' = FALSE /\ doReturned' = FALSE /\ startedAfterReturn' = FALSE
               /\ returnOK' = TRUE /\ ended' = "running"

AddCall(x) == /\ added' = added \cup {x}
              /\ UNCHANGED <<n, startCount, endCount, inProgress, doCalled, doReturned, startedAfterReturn, returnOK, ended>>
DoCall     == /\ doCalled' = TRUE
              /\ UNCHANGED <<n, added, startCount, endCount, inProgress, doReturned, startedAfterReturn, returnOK, ended>>
FStart(r, x) == /\ startCount' = Bump(startCount, x)
                /\ inProgress' = inProgress \cup {<<r, x>>}
                /\ startedAfterReturn' = (startedAfterReturn \/ doReturned)
                /\ UNCHANGED <<n, added, endCount, doCalled, doReturned, returnOK, ended>>
FEnd(r, x) == /\ endCount' = Bump(endCount, x)
              /\ inProgress' = inProgress \ {<<r, x>>}
              /\ UNCHANGED <<n, added, startCount, doCalled, doReturned, startedAfterReturn, returnOK, ended>>
DoReturn == /\ doReturned' = TRUE
            \* "returns only after every call has finished and nothing remains to do"
            /\ returnOK' = (/\ inProgress = {}
                            /\ \A x \in added : Count(startCount, x) = 1 /\ Count(endCount, x) = 1)
            /\ UNCHANGED <<n, added, startCount, endCount, inProgress, doCalled, startedAfterReturn, ended>>
End(status) == /\ ended' = status
               /\ UNCHANGED <<n, added, startCount, endCount, inProgress, doCalled, doReturned, startedAfterReturn, returnOK>>

\* ---- the statement, as state invariants ----
ExactlyOnce      == \A x \in DOMAIN startCount : startCount[x] <= 1          \* f at most once per item ...
OnlyAddedRun     == \A x \in DOMAIN startCount : x \in added                 \* ... and only for added items
AtMostNInF       == Cardinality(inProgress) <= n                             \* never more than n calls in progress
ReturnsWhenDone  == returnOK                                                 \* Do returned only when all was done
NothingAfterDo   == ~startedAfterReturn                                      \* no call of f after Do returned
Terminates       == ended \in {"running", "done"} /\ (ended = "done" => doReturned)   \* no deadlock, no livelock, no panic
=============================================================================
