SPECIFICATION Spec
CONSTANTS K = 16
INVARIANTS InvExactlyOnce InvOnlyAddedRun InvAtMostNInF InvReturnsWhenDone InvNothingAfterDo InvTerminates
CHECK_DEADLOCK FALSE
