--------------------------- MODULE Trace_ParWork ---------------------------
(***************************************************************************)
(* Validation of event traces recorded from the real par.Work (run under   *)
(* the controlled scheduler, or free-running) against ParWorkL1.  Every    *)
(* line of traces.ndjson is one run: [n, events: <<[e, r, x]>>, end].      *)
(* Lane k validates runs k, k+K, ...; one TLC state per consumed event, so *)
(* every L1 invariant is evaluated after every event of every run.         *)
(***************************************************************************)
EXTENDS ParWorkL1, TLC, Json

CONSTANTS K
Traces == ndJsonDeserialize("traces.ndjson")

VARIABLES t, pos
vars == <<t, pos, n, added, startCount, endCount, inProgress, doCalled, doReturned, startedAfterReturn, returnOK, ended>>

Init == /\ t \in 1..K /\ t <= Len(Traces) /\ pos = 0 /\ L1Init(Traces[t].n)

Event == LET ev == Traces[t].events[pos + 1] IN
  /\ pos < Len(Traces[t].events)
  /\ pos' = pos + 1 /\ t' = t
  /\ CASE ev.e = "AddCall"  -> AddCall(ev.x)
       [] ev.e = "DoCall"   -> DoCall
       [] ev.e = "FStart"   -> FStart(ev.r, ev.x)
       [] ev.e = "FEnd"     -> FEnd(ev.r, ev.x)
       [] ev.e = "DoReturn" -> DoReturn
       [] ev.e = "End"      -> End(ev.x)

NextTrace == /\ pos = Len(Traces[t].events) /\ t + K <= Len(Traces)
             /\ t' = t + K /\ pos' = 0 /\ L1Reset(Traces[t + K].n)

Next == Event \/ NextTrace
Spec == Init /\ [][Next]_vars

Bad(name) == PrintT(<<"BAD", name, t>>)
InvExactlyOnce     == ExactlyOnce \/ Bad("ExactlyOnce")
InvOnlyAddedRun    == OnlyAddedRun \/ Bad("OnlyAddedRun")
InvAtMostNInF      == AtMostNInF \/ Bad("AtMostNInF")
InvReturnsWhenDone == ReturnsWhenDone \/ Bad("ReturnsWhenDone")
InvNothingAfterDo  == NothingAfterDo \/ Bad("NothingAfterDo")
InvTerminates      == Terminates \/ Bad("Terminates")
=============================================================================
