SPECIFICATION Spec
INVARIANTS BigTerminates BigExactlyOnce BigAtMostN BigShape
CHECK_DEADLOCK FALSE
