-------------------------- MODULE Trace_ParWorkBig --------------------------
(***************************************************************************)
(* The contract of par.Work (ParWorkL1) on runs that are too large to      *)
(* record event by event: one item adds 70,000 others at once and every    *)
(* one of those adds an item that was added long before.  The driver       *)
(* reduces such a run to counters; this module states what the contract    *)
(* says about them.                                                        *)
(*   n          runners given to Do                                        *)
(*   items      distinct items added;  adds  Add calls, duplicates included*)
(*   fcalls     calls of f;  maxper  most calls of f for one item          *)
(*   maxinprog  most calls of f in progress at once                        *)
(*   end        "done" | "hang" | "panic"                                  *)
(***************************************************************************)
EXTENDS Naturals, Sequences, TLC, Json

Runs == ndJsonDeserialize("big.ndjson")
VARIABLE t
Init == t = 1
Next == t < Len(Runs) /\ t' = t + 1
Spec == Init /\ [][Next]_t
R == Runs[t]
Live == t <= Len(Runs)
Bad(name) == PrintT(<<"BAD", name, t>>)

\* Do returned (no deadlock, no lost wake-up, however long the queue got)
BigTerminates  == (Live => R.end = "done") \/ Bad("BigTerminates")
\* f ran exactly once for each distinct item: duplicate adds are ignored however long ago the first one was
BigExactlyOnce == (Live /\ R.end = "done" => R.fcalls = R.items /\ R.maxper = 1) \/ Bad("BigExactlyOnce")
\* never more than n calls of f in progress
BigAtMostN     == (Live => R.maxinprog <= R.n) \/ Bad("BigAtMostN")
\* the driver did what it says (every item but the root adds one more)
BigShape       == (Live /\ R.end = "done" => R.adds >= R.items) \/ Bad("BigShape")
=============================================================================
