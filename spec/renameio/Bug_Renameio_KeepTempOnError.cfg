SPECIFICATION MCSpec
CONSTANTS
  Actors <- MCActors
  Progs <- MCProgs
  InitContent <- MCInit
  Family = "fault"
  Bug = "KeepTempOnError"
  AllowCrash = FALSE
  MaxFaults = 1
  Record = TRUE
  Emit = FALSE
VIEW View
INVARIANTS TargetWhole ReadsWhole NoTempLeft
