---------------------------- MODULE MC_Renameio ----------------------------
EXTENDS Renameio, Json
CONSTANTS Family, Emit
MCActors == {"a1", "a2", "a3"}
MCInit == <<"o", "o">>
Wr(v) == [op |-> "write", v |-> v]
Rd == [op |-> "read", v |-> <<>>]
P(x, y, z) == ("a1" :> x) @@ ("a2" :> y) @@ ("a3" :> z)
ProgsConc == { P(<<Wr(<<"p", "p">>)>>, <<Wr(<<"q", "q">>)>>, <<Rd, Rd>>),
               P(<<Wr(<<"p", "p">>), Rd>>, <<Rd, Wr(<<"q", "q">>)>>, <<Rd>>) }
ProgsFault == { P(<<Wr(<<"p", "p">>)>>, <<>>, <<Rd>>) }
MCProgs == IF Family = "conc" THEN ProgsConc ELSE ProgsFault
EmitInit == IF Emit THEN PrintT(<<"EMIT", ToJson([prog |-> prog, init |-> InitContent])>>) ELSE TRUE
MCSpec == (Init /\ EmitInit) /\ [][Next]_vars
=============================================================================
