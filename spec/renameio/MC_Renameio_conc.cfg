SPECIFICATION MCSpec
CONSTANTS
  Actors <- MCActors
  Progs <- MCProgs
  InitContent <- MCInit
  Family = "conc"
  Bug = "none"
  AllowCrash = FALSE
  MaxFaults = 0
  Record = TRUE
  Emit = FALSE
VIEW View
INVARIANTS TargetWhole ReadsWhole NoTempLeft
