------------------------------ MODULE Renameio ------------------------------
(***************************************************************************)
(* renameio.WriteFile / WriteToFile (growth beyond the listed properties): *)
(* a file is replaced by writing a temporary file in the same directory,   *)
(* syncing, closing and renaming it over the target, so that a reader of   *)
(* the target sees the old or the new contents, never a partial file; on   *)
(* an error the target keeps its contents and the temporary file is        *)
(* removed.  One action per file operation of the real code (CreateTemp,   *)
(* Write, Sync, Close, Rename, and Close + Remove on the error path); a    *)
(* writer may stop forever between any two operations or have one          *)
(* operation fail (a failing write may be short).                          *)
(***************************************************************************)
EXTENDS Naturals, Sequences, FiniteSets, TLC

CONSTANTS Actors, Progs, InitContent, Bug, AllowCrash, MaxFaults, Record
\* Progs: set of functions Actors -> Seq([op: "write", v] | [op: "read", v: <<>>]);  Bug: "none" | "InPlace" | "KeepTempOnError"

VARIABLES prog, target, temp, pc, ip, faults, crashed, hist
vars == <<prog, target, temp, pc, ip, faults, crashed, hist>>

NoTemp == [ex |-> FALSE, b |-> <<>>]
Cur(a) == prog[a][ip[a]]

Init == /\ prog \in Progs /\ target = InitContent
        /\ temp = [a \in Actors |-> NoTemp]
        /\ pc = [a \in Actors |-> "next"] /\ ip = [a \in Actors |-> 0]
        /\ faults = 0 /\ crashed = {} /\ hist = <<>>

Goto(a, l) == pc' = [pc EXCEPT ![a] = l]
Ret(a, res) == /\ hist' = IF Record THEN Append(hist, [a |-> a, op |-> Cur(a).op, res |-> res]) ELSE hist
               /\ Goto(a, "next")

NextOp(a) == /\ pc[a] = "next" /\ ip[a] < Len(prog[a])
             /\ ip' = [ip EXCEPT ![a] = @ + 1]
             /\ pc' = [pc EXCEPT ![a] = IF prog[a][ip[a] + 1].op = "write" THEN "w_create" ELSE "r_read"]
             /\ UNCHANGED <<prog, target, temp, faults, crashed, hist>>

WCreate(a, fail) ==
   /\ pc[a] = "w_create"
   /\ IF fail THEN Ret(a, <<"err">>) /\ UNCHANGED temp
      ELSE temp' = [temp EXCEPT ![a] = [ex |-> TRUE, b |-> <<>>]] /\ Goto(a, "w_write") /\ UNCHANGED hist
   /\ UNCHANGED target
WWrite(a, fail, k) ==
   /\ pc[a] = "w_write"
   /\ LET v == Cur(a).v IN
      IF Bug = "InPlace" THEN target' = (IF fail THEN SubSeq(v, 1, k) ELSE v) /\ UNCHANGED temp
      ELSE temp' = [temp EXCEPT ![a].b = IF fail THEN SubSeq(v, 1, k) ELSE v] /\ UNCHANGED target
   /\ Goto(a, IF fail THEN "e_close" ELSE "w_sync") /\ UNCHANGED hist
WSync(a, fail) ==
   /\ pc[a] = "w_sync" /\ Goto(a, IF fail THEN "e_close" ELSE "w_close") /\ UNCHANGED <<target, temp, hist>>
WClose(a, fail) ==
   /\ pc[a] = "w_close" /\ Goto(a, IF fail THEN "e_close" ELSE "w_rename") /\ UNCHANGED <<target, temp, hist>>
WRename(a, fail) ==
   /\ pc[a] = "w_rename"
   /\ IF fail THEN Goto(a, "e_close") /\ UNCHANGED <<target, temp, hist>>
      ELSE /\ target' = IF Bug = "InPlace" THEN target ELSE temp[a].b
           /\ temp' = [temp EXCEPT ![a] = NoTemp]
           /\ Ret(a, <<"ok">>)
\* error path: Close (its error is ignored), then Remove of the temporary file
EClose(a, fail) ==
   /\ pc[a] = "e_close" /\ Goto(a, "e_remove") /\ UNCHANGED <<target, temp, hist>>
ERemove(a, fail) ==
   /\ pc[a] = "e_remove"
   /\ temp' = [temp EXCEPT ![a] = IF fail \/ Bug = "KeepTempOnError" THEN @ ELSE NoTemp]
   /\ Ret(a, <<"err">>) /\ UNCHANGED target
\* a reader of the target (one read: the files are small)
RRead(a, fail) ==
   /\ pc[a] = "r_read" /\ Ret(a, <<"val", target>>) /\ UNCHANGED <<target, temp>>

OpStep(a, fail, k) == WCreate(a, fail) \/ WWrite(a, fail, k) \/ WSync(a, fail) \/ WClose(a, fail) \/ WRename(a, fail)
                      \/ EClose(a, fail) \/ ERemove(a, fail) \/ RRead(a, fail)
Faultable(l) == l \in {"w_create", "w_write", "w_sync", "w_close", "w_rename"}
Step(a) == /\ pc[a] # "next" /\ a \notin crashed
           /\ \/ OpStep(a, FALSE, 0) /\ UNCHANGED faults
              \/ /\ faults < MaxFaults /\ Faultable(pc[a])
                 /\ \E k \in (IF pc[a] = "w_write" THEN {0, 1} ELSE {0}) : OpStep(a, TRUE, k)
                 /\ faults' = faults + 1
           /\ UNCHANGED <<prog, ip, crashed>>
Crash(a) == /\ AllowCrash /\ a \notin crashed /\ pc[a] # "next" /\ Cur(a).op = "write"
            /\ crashed' = crashed \cup {a}
            /\ UNCHANGED <<prog, target, temp, pc, ip, faults, hist>>
Done == \A a \in Actors : a \in crashed \/ (pc[a] = "next" /\ ip[a] = Len(prog[a]))
Next == (\E a \in Actors : NextOp(a) \/ Step(a) \/ Crash(a)) \/ (Done /\ UNCHANGED vars)
Spec == Init /\ [][Next]_vars

-----------------------------------------------------------------------------
Whole == {InitContent} \cup {o.v : o \in {o \in UNION {{prog[a][k] : k \in 1..Len(prog[a])} : a \in Actors} : o.op = "write"}}
\* the target always holds the old or some writer's complete new contents - whatever stops or fails
TargetWhole == target \in Whole
ReadsWhole == \A k \in 1..Len(hist) : hist[k].res[1] = "val" => hist[k].res[2] \in Whole
\* a writer that returned (ok or error) left no temporary file behind; only a stopped writer may
NoTempLeft == \A a \in Actors : (pc[a] = "next" /\ a \notin crashed) => ~temp[a].ex
\* a write that reported success is what a later reader sees unless another write came after it (single writer: equality)
View == <<prog, target, temp, pc, ip, faults, crashed>>
=============================================================================
