SPECIFICATION Spec
CONSTANTS K = 16
INVARIANTS InvL1TargetWhole InvL1ReadsWhole InvL1NoTempLeft InvL1ErrorKeepsOld InvL1OkMeansNew InvL1Terminates
CHECK_DEADLOCK FALSE
