--------------------------- MODULE Trace_Renameio ---------------------------
(* Runs of the real renameio.WriteFile (os -> vos) validated against the contract: the target and  *)
(* every value a reader obtained are whole values; a writer that returned left no temporary file;   *)
(* an error or a stop before the rename leaves the old contents.                                     *)
EXTENDS Naturals, Sequences, FiniteSets, TLC, Json
CONSTANTS K
Runs == ndJsonDeserialize("traces.ndjson")
VARIABLE t
Init == t \in 1..K /\ t <= Len(Runs)
Next == t + K <= Len(Runs) /\ t' = t + K
Spec == Init /\ [][Next]_t
R == Runs[t]
Evs == R.events
Written == {Evs[k].v : k \in {j \in 1..Len(Evs) : Evs[j].ev = "call" /\ Evs[j].op = "write"}}
Whole == {R.init} \cup Written
L1TargetWhole == R.final \in Whole
L1ReadsWhole == \A k \in 1..Len(Evs) : (Evs[k].ev = "ret" /\ Evs[k].op = "read") => (Evs[k].res = "val" /\ Evs[k].v \in Whole)
Crashed == \E k \in 1..Len(Evs) : Evs[k].ev = "crash"
L1NoTempLeft == Crashed \/ R.temps = 0
Renamed == \E k \in 1..Len(Evs) : Evs[k].ev = "op" /\ Evs[k].op = "rename" /\ ~Evs[k].fail
L1ErrorKeepsOld == (R.inject.kind # "none" /\ ~Renamed /\ Cardinality(Written) = 1) => R.final = R.init
L1OkMeansNew == \A k \in 1..Len(Evs) : (Evs[k].ev = "ret" /\ Evs[k].op = "write" /\ Evs[k].res = "ok" /\ Cardinality(Written) = 1) => R.final \in Written
L1Terminates == R.end = "done"
Bad(name) == PrintT(<<"BAD", name, t>>)
InvL1TargetWhole == L1TargetWhole \/ Bad("L1TargetWhole")
InvL1ReadsWhole == L1ReadsWhole \/ Bad("L1ReadsWhole")
InvL1NoTempLeft == L1NoTempLeft \/ Bad("L1NoTempLeft")
InvL1ErrorKeepsOld == L1ErrorKeepsOld \/ Bad("L1ErrorKeepsOld")
InvL1OkMeansNew == L1OkMeansNew \/ Bad("L1OkMeansNew")
InvL1Terminates == L1Terminates \/ Bad("L1Terminates")
=============================================================================
