SPECIFICATION MCSpec
CONSTANTS
  Batches <- MCBatches
  Bug = "DecBeforeRemove"
  Record = TRUE
  Emit = FALSE
VIEW View
INVARIANTS DeferLIFO NothingLeft RootLast
