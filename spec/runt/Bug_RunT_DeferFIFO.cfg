SPECIFICATION MCSpec
CONSTANTS
  Batches <- MCBatches
  Bug = "DeferFIFO"
  Record = TRUE
  Emit = FALSE
VIEW View
INVARIANTS DeferLIFO NothingLeft RootLast
