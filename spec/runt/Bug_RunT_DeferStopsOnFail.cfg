SPECIFICATION MCSpec
CONSTANTS
  Batches <- MCBatches
  Bug = "DeferStopsOnFail"
  Record = TRUE
  Emit = FALSE
VIEW View
INVARIANTS DeferLIFO NothingLeft RootLast
