SPECIFICATION MCSpec
CONSTANTS
  Batches <- MCBatches
  Bug = "NoBgCleanupOnFail"
  Record = TRUE
  Emit = FALSE
VIEW View
INVARIANTS DeferLIFO NothingLeft RootLast
