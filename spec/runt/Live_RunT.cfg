SPECIFICATION MCFairSpec
CONSTANTS
  Batches <- MCBatches
  Bug = "none"
  Record = FALSE
  Emit = FALSE

INVARIANTS DeferLIFO NothingLeft RootLast
PROPERTY Termination
