SPECIFICATION MCSpec
CONSTANTS
  Batches <- MCBatches
  Bug = "none"
  Record = TRUE
  Emit = FALSE
VIEW View
INVARIANTS DeferLIFO NothingLeft RootLast
