------------------------------- MODULE MC_RunT ------------------------------
EXTENDS RunT, Json
CONSTANTS Emit

Sc(n, ls) == [name |-> n, lines |-> ls, file |-> ""]
\* a script handed to RunT through Params.Files under the given path (equal base names in different directories:
\* RunT has to tell the scripts, and their work directories, apart by itself)
ScF(n, ls, f) == [name |-> n, lines |-> ls, file |-> f]
B(ss, r) == [scripts |-> ss, retain |-> r, how |-> IF r THEN "testwork" ELSE "none"]
BR(ss) == [scripts |-> ss, retain |-> TRUE, how |-> "workdirroot"]     \* Params.WorkdirRoot: retention with a caller-supplied root
\* script shapes
Plain   == <<"env", "cd", "gate", "write", "probe", "gate", "probe", "childenv">>
Probe2  == <<"probe", "gate", "env", "probe", "gate", "cd", "write", "probe">>
Defers  == <<"defer", "gate", "defer", "bg", "gate", "defer", "probe">>
Fails   == <<"defer", "bg", "gate", "defer", "fail", "probe">>
Skips   == <<"defer", "bg", "gate", "skip", "probe">>
Stops   == <<"bg", "defer", "gate", "stop", "probe">>
ReadOnly == <<"ro", "gate", "defer", "probe">>
NoPath  == <<"nopath", "gate", "condexec", "probe">>
WithPath == <<"gate", "condexec", "probe">>
WaitFail == <<"defer", "bgfail", "bg", "gate", "wait", "probe">>
NamedWait == <<"bgnamed", "bg", "bg", "gate", "waitnamed", "probe", "gate", "probe">>
Short   == <<"probe", "gate", "write", "probe", "gate", "probe">>
DeferFail == <<"defer", "deferfail", "bg", "gate", "defer", "probe">>
SetupFail == <<"setupfail", "probe">>
EnvPwd  == <<"env", "envpwd", "gate", "childenv", "probe">>
BgWriter == <<"defer", "bgwriter", "gate", "fail", "probe">>
DupBg   == <<"defer", "bgdup", "probe">>
LinkOut == <<"linkout", "gate", "defer", "probe">>
LinkFail == <<"linkout", "bg", "gate", "fail", "probe">>
ToolHere == <<"tooldef", "gate", "condslash", "probe">>
ToolAbsent == <<"gate", "condslash", "probe">>
TFail   == <<"defer", "bg", "gate", "tfail", "probe">>
TSkip   == <<"bg", "defer", "gate", "bg", "tskip", "probe">>

MCBatches == {
  B(<<Sc("p1", Plain), Sc("p2", Probe2)>>, FALSE),
  B(<<Sc("d1", Defers), Sc("f1", Fails)>>, FALSE),
  B(<<Sc("s1", Skips), Sc("t1", Stops), Sc("r1", ReadOnly)>>, FALSE),
  B(<<Sc("f1", Fails), Sc("f2", Fails)>>, FALSE),
  B(<<Sc("n1", NoPath), Sc("w1", WithPath)>>, FALSE),
  B(<<Sc("w1", WithPath), Sc("n1", NoPath)>>, FALSE),
  B(<<Sc("d1", Defers), Sc("r1", ReadOnly)>>, TRUE),
  BR(<<Sc("f1", Fails), Sc("p1", Plain)>>),
  B(<<Sc("p1", Plain), Sc("f1", Fails), Sc("s1", Skips)>>, FALSE),
  B(<<Sc("x1", WaitFail), Sc("d1", Defers)>>, FALSE),
  B(<<Sc("x1", WaitFail), Sc("x2", WaitFail)>>, FALSE),
  B(<<Sc("y1", NamedWait), Sc("s1", Skips)>>, FALSE),
  B(<<Sc("y1", NamedWait), Sc("f1", Fails)>>, TRUE),
  B(<<Sc("g1", DeferFail), Sc("d1", Defers)>>, FALSE),
  B(<<Sc("z1", SetupFail), Sc("p1", Plain)>>, FALSE),
  B(<<Sc("e1", EnvPwd), Sc("p1", Plain)>>, FALSE),
  B(<<Sc("v1", BgWriter), Sc("v2", BgWriter)>>, FALSE),
  B(<<Sc("q1", DupBg), Sc("d1", Defers)>>, FALSE),
  B(<<Sc("k1", TFail), Sc("k2", TSkip)>>, FALSE),
  B(<<Sc("l1", LinkOut), Sc("l2", LinkFail)>>, FALSE),
  B(<<Sc("h1", ToolHere), Sc("h2", ToolAbsent)>>, FALSE),
  B(<<Sc("h2", ToolAbsent), Sc("h1", ToolHere)>>, FALSE),
  B(<<ScF("u1", Short, "a/foo#1"), ScF("u2", Short, "b/foo"), ScF("u3", Short, "c/foo")>>, FALSE),
  B(<<ScF("u1", Short, "a/foo"), ScF("u2", Short, "b/foo#1"), ScF("u3", Short, "c/foo")>>, FALSE)
}

EmitStep == IF Emit /\ sched' # sched
            THEN PrintT(<<"EMIT", ToJson([scripts |-> batch.scripts, retain |-> batch.retain, how |-> batch.how, sched |-> sched'])>>) ELSE TRUE
EmitConfig == IF Emit THEN PrintT(<<"EMIT", ToJson([scripts |-> batch.scripts, retain |-> batch.retain, how |-> batch.how, sched |-> <<>>])>>) ELSE TRUE
MCNext == Next /\ EmitStep
MCSpec == (Init /\ EmitConfig) /\ [][MCNext]_vars
MCFairSpec == MCSpec /\ WF_vars(MCNext)
=============================================================================
