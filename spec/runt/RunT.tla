-------------------------------- MODULE RunT --------------------------------
(***************************************************************************)
(* testscript.RunT's per-script life cycle and the shared-root protocol    *)
(* (property C04), implementation-shaped (L2).                             *)
(*                                                                         *)
(* Scripts run as parallel subtests.  A step of script s is what the real  *)
(* code does between two scheduling points of the controlled run:          *)
(*   - the lines up to and including the next `gate` line (or up to the    *)
(*     end of the script / a failing line / skip / stop),                  *)
(*   - one deferred function (they run in reverse order of registration),  *)
(*   - the removal itself up to the reference-count decrement,             *)
(*   - the decrement up to (if it was the last) the removal of the root,   *)
(*   - the removal of the root.                                            *)
(* Line kinds: gate cd env write probe childenv bg fail skip stop ro defer deferfail setupfail bgdup envpwd bgwriter *)
(* nopath condexec bgfail wait bgnamed waitnamed.  Only bg / defer / fail / wait / skip /    *)
(* stop / gate matter                                                      *)
(* for the shared state; the others act on the script's private state.     *)
(***************************************************************************)
EXTENDS Naturals, Sequences, FiniteSets, TLC

CONSTANTS Batches,     \* set of records [scripts |-> <<[name, lines]>>, retain |-> BOOLEAN]
          Bug,         \* "none" | "DecBeforeRemove" | "DeferFIFO" | "NoBgCleanupOnFail" | "DeferStopsOnFail"
          Record

VARIABLES batch, pc, ip, verdict, bg, dstack, dran, wd, root, refCount, rootRemovals, sched
vars == <<batch, pc, ip, verdict, bg, dstack, dran, wd, root, refCount, rootRemovals, sched>>

N == Len(batch.scripts)
S == 1..N
\* Setup registers a clean-up of its own before the first line: every script starts with one deferred function
Lines(s) == <<"defer">> \o batch.scripts[s].lines
Name(s) == batch.scripts[s].name

Init == /\ batch \in Batches
        /\ pc = [s \in 1..Len(batch.scripts) |-> "parallel"]
        /\ ip = [s \in 1..Len(batch.scripts) |-> 1]
        /\ verdict = [s \in 1..Len(batch.scripts) |-> "running"]
        /\ bg = [s \in 1..Len(batch.scripts) |-> 0]
        /\ dstack = [s \in 1..Len(batch.scripts) |-> <<>>]
        /\ dran = [s \in 1..Len(batch.scripts) |-> <<>>]
        /\ wd = [s \in 1..Len(batch.scripts) |-> "none"]
        /\ root = "present" /\ refCount = Len(batch.scripts) /\ rootRemovals = 0
        /\ sched = <<>>

\* run lines from position i: result [ip, bg, dstack, verdict, gate]
RECURSIVE Seg(_, _, _, _)
Seg(s, i, b, d) ==
  IF i > Len(Lines(s)) THEN [ip |-> i, bg |-> 0, d |-> d, v |-> "pass", gate |-> FALSE]     \* end of script: bg interrupted and waited
  ELSE LET l == Lines(s)[i] IN
    CASE l = "gate"  -> [ip |-> i + 1, bg |-> b, d |-> d, v |-> "running", gate |-> TRUE]
      [] l \in {"bg", "bgwriter"} -> Seg(s, i + 1, b + 1, d)
      [] l \in {"defer", "deferfail"} -> Seg(s, i + 1, b, Append(d, Len(d) + 1))
      [] l = "fail"  -> [ip |-> i, bg |-> b, d |-> d, v |-> "fail", gate |-> FALSE]
      \* Setup itself fails (after registering its clean-up): no line runs, the script has failed
      [] l = "setupfail" -> [ip |-> i, bg |-> b, d |-> d, v |-> "fail", gate |-> FALSE]
      \* a background command under a name that is in use: one process runs, the line fails
      [] l = "bgdup" -> [ip |-> i, bg |-> b + 1, d |-> d, v |-> "fail", gate |-> FALSE]
      \* `wait` after a background command that already exited with an unaccepted status ("bgfail") fails at once,
      \* before it would wait for the commands started later: those are still alive when the failure path begins
      [] l = "wait"  -> [ip |-> i, bg |-> b, d |-> d, v |-> "fail", gate |-> FALSE]
      \* a custom command ends the run through T itself (T.FailNow / T.Skip, not the script's Fatalf and not the skip
      \* command): no line cleans up after it, the background commands are still alive when the end-of-run path begins
      [] l = "tfail" -> [ip |-> i, bg |-> b, d |-> d, v |-> "fail", gate |-> FALSE]
      [] l = "tskip" -> [ip |-> i, bg |-> b, d |-> d, v |-> "skip", gate |-> FALSE]
      [] l = "skip"  -> [ip |-> i, bg |-> 0, d |-> d, v |-> "skip", gate |-> FALSE]
      [] l = "stop"  -> [ip |-> i, bg |-> 0, d |-> d, v |-> "pass", gate |-> FALSE]
      [] OTHER       -> Seg(s, i + 1, b, d)

Note(s) == sched' = IF Record THEN Append(sched, [a |-> Name(s)]) ELSE sched

\* after the last deferred function (or the last line when nothing was deferred) the same step goes on: the
\* background processes of a failed script are interrupted and waited for, and - unless work directories are
\* retained - the step ends where removeAll(workdir) is about to run
Final == IF batch.retain THEN "done" ELSE IF Bug = "DecBeforeRemove" THEN "dec" ELSE "rmwd"
CleanBg(b, v) == IF Bug = "NoBgCleanupOnFail" /\ v = "fail" THEN b ELSE 0

\* from Parallel() / a gate to the next gate or to the end of the lines
RunLines(s) ==
  /\ pc[s] \in {"parallel", "lines"}
  /\ LET r == Seg(s, ip[s], bg[s], dstack[s]) IN
     /\ ip' = [ip EXCEPT ![s] = r.ip]
     /\ bg' = [bg EXCEPT ![s] = IF ~r.gate /\ r.d = <<>> THEN CleanBg(r.bg, r.v) ELSE r.bg]
     /\ dstack' = [dstack EXCEPT ![s] = r.d]
     /\ verdict' = [verdict EXCEPT ![s] = r.v]
     /\ wd' = [wd EXCEPT ![s] = "present"]
     /\ pc' = [pc EXCEPT ![s] = IF r.gate THEN "lines" ELSE IF r.d # <<>> THEN "deferred" ELSE Final]
  /\ Note(s) /\ UNCHANGED <<batch, dran, root, refCount, rootRemovals>>

\* the deferred functions that report a failure through T when they run (line kind "deferfail"): the k-th registered
\* one fails iff the k-th defer / deferfail line of the script is a deferfail.  The run is then failed; the functions
\* registered before it still run.
DeferLines(s) == SelectSeq(Lines(s), LAMBDA l : l \in {"defer", "deferfail"})
FailingDefer(s, k) == k <= Len(DeferLines(s)) /\ DeferLines(s)[k] = "deferfail"
\* one deferred function (the driver's deferred functions yield before they record)
RunDeferred(s) ==
  /\ pc[s] = "deferred" /\ dstack[s] # <<>>
  /\ LET k == IF Bug = "DeferFIFO" THEN Head(dstack[s]) ELSE dstack[s][Len(dstack[s])]
         rest0 == IF Bug = "DeferFIFO" THEN Tail(dstack[s]) ELSE SubSeq(dstack[s], 1, Len(dstack[s]) - 1)
         \* faulty variant: a deferred function that fails takes the ones registered before it down with it
         rest == IF Bug = "DeferStopsOnFail" /\ FailingDefer(s, k) THEN <<>> ELSE rest0
         v == IF FailingDefer(s, k) THEN "fail" ELSE verdict[s] IN
     /\ dran' = [dran EXCEPT ![s] = Append(@, k)]
     /\ dstack' = [dstack EXCEPT ![s] = rest]
     /\ verdict' = [verdict EXCEPT ![s] = v]
     /\ pc' = [pc EXCEPT ![s] = IF rest = <<>> THEN Final ELSE "deferred"]
     /\ bg' = [bg EXCEPT ![s] = IF rest = <<>> THEN CleanBg(@, v) ELSE @]
  /\ Note(s) /\ UNCHANGED <<batch, ip, wd, root, refCount, rootRemovals>>

RemoveWorkdir(s) ==
  /\ pc[s] = "rmwd"
  /\ wd' = [wd EXCEPT ![s] = "removed"]
  /\ pc' = [pc EXCEPT ![s] = IF Bug = "DecBeforeRemove" THEN "done" ELSE "dec"]
  /\ Note(s) /\ UNCHANGED <<batch, ip, verdict, bg, dstack, dran, root, refCount, rootRemovals>>
DecRef(s) ==
  /\ pc[s] = "dec"
  /\ refCount' = refCount - 1
  /\ pc' = [pc EXCEPT ![s] = IF refCount - 1 = 0 THEN "rmroot" ELSE IF Bug = "DecBeforeRemove" THEN "rmwd" ELSE "done"]
  /\ Note(s) /\ UNCHANGED <<batch, ip, verdict, bg, dstack, dran, wd, root, rootRemovals>>
\* os.Remove(root): succeeds only on an empty directory
RemoveRoot(s) ==
  /\ pc[s] = "rmroot"
  /\ root' = IF \A q \in S : wd[q] # "present" THEN "removed" ELSE root
  /\ rootRemovals' = rootRemovals + 1
  /\ pc' = [pc EXCEPT ![s] = IF Bug = "DecBeforeRemove" THEN "rmwd" ELSE "done"]
  /\ Note(s) /\ UNCHANGED <<batch, ip, verdict, bg, dstack, dran, wd, refCount>>

Done == \A s \in S : pc[s] = "done"
Next == (\E s \in S : RunLines(s) \/ RunDeferred(s) \/ RemoveWorkdir(s) \/ DecRef(s) \/ RemoveRoot(s))
        \/ (Done /\ UNCHANGED vars)
Spec == Init /\ [][Next]_vars
FairSpec == Spec /\ WF_vars(Next)

-----------------------------------------------------------------------------
Reverse(q) == [k \in 1..Len(q) |-> q[Len(q) + 1 - k]]
\* deferred functions run in reverse order of registration, all of them, on every exit path
DeferLIFO == \A s \in S : pc[s] \in {"rmwd", "dec", "rmroot", "done"} =>
                 /\ dran[s] = Reverse([k \in 1..Len(dran[s]) |-> k])
                 /\ (ip[s] > Len(Lines(s)) => Len(dran[s]) = Len(DeferLines(s)))     \* a script that reached its end registered them all
\* when everything has ended no process is alive and nothing is left (unless retention was requested)
NothingLeft == Done => /\ \A s \in S : bg[s] = 0
                       /\ batch.retain \/ (root = "removed" /\ \A s \in S : wd[s] = "removed")
\* the root is removed at most once and only when every script has dealt with its own work directory
RootLast == /\ rootRemovals <= 1
            /\ root = "removed" => \A s \in S : wd[s] # "present"
Termination == <>Done
View == <<batch, pc, ip, verdict, bg, dstack, dran, wd, root, refCount, rootRemovals>>
=============================================================================
