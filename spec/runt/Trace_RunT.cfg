SPECIFICATION Spec
CONSTANTS K = 16
INVARIANTS InvL1SameAsSolo InvL1DeferLIFO InvL1NoLiveProcess InvL1NothingLeft InvL1RootLast InvL1HostUnchanged InvL1HostVarsInvisible InvL1Terminates InvL1DocumentedEnv InvL1FreshWorkdir InvL1OwnFilesOnly
CHECK_DEADLOCK FALSE
