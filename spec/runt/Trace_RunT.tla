------------------------------ MODULE Trace_RunT -----------------------------
(***************************************************************************)
(* Contract of testscript.RunT (C04) as predicates over batch runs         *)
(* recorded from the real package: every record holds, per script, what it *)
(* observed (cwd, variables, own files, child environment, condition       *)
(* results) in the batch and when run alone, its verdicts, the deferred    *)
(* functions registered and run, and the end-of-run facts gathered with    *)
(* plain os calls: what is left in the private temp dir, which recorded    *)
(* pids are alive, whether the host process's cwd / environment changed,   *)
(* whether the host-only canary variable was visible to a script.          *)
(***************************************************************************)
EXTENDS Naturals, Sequences, FiniteSets, TLC, Json

CONSTANTS K
Runs == ndJsonDeserialize("traces.ndjson")
VARIABLE t
Init == t \in 1..K /\ t <= Len(Runs)
Next == t + K <= Len(Runs) /\ t' = t + K
Spec == Init /\ [][Next]_t

R == Runs[t]
Names == {R.scripts[k].name : k \in 1..Len(R.scripts)}
Reverse(q) == [k \in 1..Len(q) |-> q[Len(q) + 1 - k]]

\* parallel scripts give the same results as when run one at a time
L1SameAsSolo == \A n \in Names : R.obs[n] = R.solo[n] /\ R.verdict[n] = R.solov[n]
\* deferred functions have run, in reverse order, on every exit path
L1DeferLIFO == \A n \in Names : R.ran[n] = Reverse(R.reg[n])
\* no process a script started is still alive
L1NoLiveProcess == R.live = <<>>
\* work directories and the shared root are gone unless retention was requested
L1NothingLeft == R.retain \/ R.left = <<>>
\* the root goes last: nothing of any script happens after it was removed
L1RootLast == R.rootlast
\* the host process is untouched and its other variables are invisible to scripts
L1HostUnchanged == R.host = <<>>
L1HostVarsInvisible == ~R.canary /\ R.leaked = <<>>
\* the environment a script does see: the documented variables, Setup's additions, the GOCOVERDIR / GORACE pass-through
L1DocumentedEnv == R.missing = <<>>
\* a fresh work directory holds exactly the files of the archive (scripts whose first line is a probe)
L1FreshWorkdir == \A k \in 1..Len(R.scripts) :
     (R.scripts[k].lines[1] = "probe" /\ R.obs[R.scripts[k].name] # <<>>) => R.obs[R.scripts[k].name][1] = "cwd= V= files=/seed.txt"
\* a condition on a program named with a directory part is not answered from another script's files: a script that
\* made no such program is never told there is one
L1OwnFilesOnly == \A k \in 1..Len(R.scripts) :
     (\A j \in 1..Len(R.scripts[k].lines) : R.scripts[k].lines[j] # "tooldef") =>
        \A j \in 1..Len(R.obs[R.scripts[k].name]) : R.obs[R.scripts[k].name][j] # "mark has-slash"
L1Terminates == R.end = "done" /\ \A n \in Names : R.verdict[n] \in {"pass", "fail", "skip"}

Bad(name) == PrintT(<<"BAD", name, t>>)
InvL1SameAsSolo == L1SameAsSolo \/ Bad("L1SameAsSolo")
InvL1DeferLIFO == L1DeferLIFO \/ Bad("L1DeferLIFO")
InvL1NoLiveProcess == L1NoLiveProcess \/ Bad("L1NoLiveProcess")
InvL1NothingLeft == L1NothingLeft \/ Bad("L1NothingLeft")
InvL1RootLast == L1RootLast \/ Bad("L1RootLast")
InvL1HostUnchanged == L1HostUnchanged \/ Bad("L1HostUnchanged")
InvL1HostVarsInvisible == L1HostVarsInvisible \/ Bad("L1HostVarsInvisible")
InvL1Terminates == L1Terminates \/ Bad("L1Terminates")
InvL1DocumentedEnv == L1DocumentedEnv \/ Bad("L1DocumentedEnv")
InvL1FreshWorkdir == L1FreshWorkdir \/ Bad("L1FreshWorkdir")
InvL1OwnFilesOnly == L1OwnFilesOnly \/ Bad("L1OwnFilesOnly")
=============================================================================
