\* sanity: with this seeded fault of the specification TLC must find a violated law (checks/c01.py --selftest)
SPECIFICATION MCSpec
VIEW View
CONSTANTS
  Names <- MCNames
  Vars <- MCVars
  VarBytes <- MCVarBytes
  Str <- MCStr
  BadPats <- MCBadPats
  Profiles <- MCProfiles
  LineSeq <- MCLineSeq
  Roots <- MCRoots
  DepthOf <- MCDepthOf
  InitFS <- MCInitFS
  EmitMode = "none"
  Bug = "NoFreeze"
  DepthMain = 2
  DepthAux = 0
  Slice = {"fg", "bg"}
INVARIANTS TypeOK TreeLaw VerdictLaw FreezeLaw NoNegLaw NegLaw CondLaw PadLaw
CHECK_DEADLOCK FALSE
