\* reference configuration (checks/c01.py generates the tier configurations with the same shape)
SPECIFICATION MCSpec
VIEW View
CONSTANTS
  Names <- MCNames
  Vars <- MCVars
  VarBytes <- MCVarBytes
  Str <- MCStr
  BadPats <- MCBadPats
  Profiles <- MCProfiles
  LineSeq <- MCLineSeq
  Roots <- MCRoots
  DepthOf <- MCDepthOf
  InitFS <- MCInitFS
  EmitMode = "none"
  Bug = "none"
  DepthMain = 2
  DepthAux = 1
  Slice = {"fg", "bg"}
INVARIANTS TypeOK TreeLaw VerdictLaw FreezeLaw NoNegLaw NegLaw CondLaw PadLaw
CHECK_DEADLOCK FALSE
