--------------------------- MODULE MC_Testscript ----------------------------
(***************************************************************************)
(* Bounded instance of Testscript and case generator (binding A).          *)
(*                                                                         *)
(* The initial archives, the path universe, the configurations (profiles)  *)
(* and the line vocabulary: every documented command, plain and negated,   *)
(* with two or three argument choices that hit its success, its unmet      *)
(* demand and its error paths; conditions crossed with a few commands.     *)
(* TLC explores the interpreter's state graph to DepthOf lines (VIEW hides *)
(* the history but not the script length: one representative script per    *)
(* abstract state and length), checks the laws of Testscript in every      *)
(* state and emits one script per transition with the predicted verdict,   *)
(* reported line, tree and probe observations.  The first EMIT record is   *)
(* the header (the vocabulary itself, so that scripts are sequences of     *)
(* indexes).  Slice {"flow"} selects the lines that move data through the  *)
(* hidden script state; they are explored one line deeper.                 *)
(***************************************************************************)
EXTENDS Testscript

CONSTANTS
  DepthMain,   \* script length explored under the full profile
  DepthAux,    \* ... under the other profiles
  Slice        \* vocabulary slices switched on: subset of {"fg", "bg"}, or {"flow"}

MCNames == {"a", "b", "d", "e", "l"}
MCVars == {"V"}
MCVarBytes == [v \in MCVars |-> <<86>>]

\* literal words whose bytes matter
MCStr ==
  [w \in {"hello", "l", "nomatch", "hi", "so", "se", "htouch: failed", "(", "c", "t"} |->
     CASE w = "hello" -> <<104, 101, 108, 108, 111>>
       [] w = "l" -> <<108>>
       [] w = "nomatch" -> <<110, 111, 109, 97, 116, 99, 104>>
       [] w = "hi" -> <<104, 105>>
       [] w = "so" -> <<115, 111>>
       [] w = "se" -> <<115, 101>>
       [] w = "htouch: failed" -> <<104, 116, 111, 117, 99, 104, 58, 32, 102, 97, 105, 108, 101, 100>>
       [] w = "(" -> <<40>>
       [] w = "c" -> <<99>>
       [] w = "t" -> <<116>>]
MCBadPats == {"("}

\* initial archives
\*   1:  a = "hello\n"       b = ">$V\n"      d/a = "x\n"
\*   2:  a = ">hi\n>>x\n"    b = "hi\n>x\n"   e/b = "l\r\nhello\n"; no d
MCInitFS ==
  << [p \in Dom |->
        CASE p = <<"a">> -> File(<<104, 101, 108, 108, 111, 10>>, TRUE)
          [] p = <<"b">> -> File(<<62, 36, 86, 10>>, TRUE)
          [] p = <<"d">> -> Dir(TRUE)
          [] p = <<"d", "a">> -> File(<<120, 10>>, TRUE)
          [] OTHER -> None],
     [p \in Dom |->
        CASE p = <<"a">> -> File(<<62, 104, 105, 10, 62, 62, 120, 10>>, TRUE)
          [] p = <<"b">> -> File(<<104, 105, 10, 62, 120, 10>>, TRUE)
          [] p = <<"e">> -> Dir(TRUE)
          [] p = <<"e", "b">> -> File(<<108, 13, 10, 104, 101, 108, 108, 111, 10>>, TRUE)
          [] OTHER -> None] >>

\* configurations.  "full": every custom command and condition, commands of Main usable bare.
\* "strict": RequireExplicitExec + RequireUniqueNames, no Condition function, only probe.
\* "dup" / "dupstrict": the archive names the file a twice (the later entry wins / setup fails).
\* "second": the full profile on the second archive.
MCProfiles ==
  [n \in {"full", "strict", "dup", "dupstrict", "second"} |->
     CASE n = "full" -> [explicit |-> FALSE, hascond |-> TRUE, cmds |-> {"probe", "cfail", "cout", "cpause"}, unique |-> FALSE, dup |-> FALSE, arch |-> 1]
       [] n = "strict" -> [explicit |-> TRUE, hascond |-> FALSE, cmds |-> {"probe"}, unique |-> TRUE, dup |-> FALSE, arch |-> 1]
       [] n = "dup" -> [explicit |-> FALSE, hascond |-> TRUE, cmds |-> {"probe", "cfail", "cout", "cpause"}, unique |-> FALSE, dup |-> TRUE, arch |-> 1]
       [] n = "dupstrict" -> [explicit |-> TRUE, hascond |-> FALSE, cmds |-> {"probe"}, unique |-> TRUE, dup |-> TRUE, arch |-> 1]
       [] n = "second" -> [explicit |-> FALSE, hascond |-> TRUE, cmds |-> {"probe", "cfail", "cout", "cpause"}, unique |-> FALSE, dup |-> FALSE, arch |-> 2]]
MCRoots == {[coe |-> c, prof |-> n] : c \in BOOLEAN, n \in DOMAIN MCProfiles}
MCDepthOf == [n \in DOMAIN MCProfiles |-> IF n = "full" THEN DepthMain ELSE DepthAux]

\* ---- vocabulary ----
A == Lit("a")  B == Lit("b")  D == Lit("d")  E == Lit("e")  L == Lit("l")  NX == Lit("nx")
DA == Rel(<<"d", "a">>)
RM == Ln("rm", <<A>>)

FgLines == <<
  \* padding
  Ln("", <<>>), Ln("#", <<>>),
  \* cd
  Ln("cd", <<D>>), Ln("cd", <<NX>>), Ln("cd", <<A>>), Ln("cd", <<>>), Ln("cd", <<Abs(<<>>)>>), Not(Ln("cd", <<D>>)),
  \* chmod
  Ln("chmod", <<Lit("444"), A>>), Ln("chmod", <<Lit("644"), A>>), Ln("chmod", <<Lit("999"), A>>),
  Ln("chmod", <<Lit("444"), NX>>), Ln("chmod", <<Lit("444")>>), Not(Ln("chmod", <<Lit("444"), A>>)),
  Ln("chmod", <<Lit("555"), D>>), Alt(Ln("chmod", <<Lit("444"), A, B>>)),
  \* cmp / cmpenv
  Ln("cmp", <<A, B>>), Not(Ln("cmp", <<A, B>>)), Ln("cmp", <<A, A>>), Ln("cmp", <<Lit("stdout"), A>>),
  Not(Ln("cmp", <<Lit("stdout"), A>>)), Ln("cmp", <<Lit("stderr"), B>>), Ln("cmp", <<A, NX>>), Ln("cmp", <<NX, A>>),
  Ln("cmp", <<A>>), Ln("cmp", <<A, Lit("stdout")>>), Ln("cmp", <<A, Abs(<<"a">>)>>), Ln("cmp", <<DA, A>>),
  Ln("cmpenv", <<A, B>>), Not(Ln("cmpenv", <<A, B>>)), Ln("cmpenv", <<A, A>>), Ln("cmpenv", <<Lit("stdout"), B>>),
  \* cp
  Ln("cp", <<A, B>>), Ln("cp", <<A, E>>), Ln("cp", <<A, D>>), Ln("cp", <<B, A, D>>), Ln("cp", <<A, B, E>>),
  Ln("cp", <<NX, B>>), Ln("cp", <<Lit("stdout"), B>>), Ln("cp", <<Lit("stderr"), B>>), Ln("cp", <<A>>),
  Not(Ln("cp", <<A, B>>)), Ln("cp", <<D, B>>), Ln("cp", <<B, L>>), Ln("cp", <<DA, Abs(<<"a">>)>>),
  \* env
  Ln("env", <<KV("V", <<104, 101, 108, 108, 111>>)>>), Ln("env", <<KV("V", <<120, 32, 121>>)>>), Ln("env", <<>>),
  Ln("env", <<Lit("V")>>), Not(Ln("env", <<KV("V", <<120>>)>>)),
  \* exec, foreground
  Ln("exec", <<Lit("hecho"), Lit("hi")>>), Not(Ln("exec", <<Lit("hecho"), Lit("hi")>>)),
  Ln("exec", <<Lit("hfail")>>), Not(Ln("exec", <<Lit("hfail")>>)), Ln("exec", <<Lit("hcat")>>),
  Ln("exec", <<Lit("nosuchprog")>>), Not(Ln("exec", <<Lit("nosuchprog")>>)),
  Ln("exec", <<Lit("htouch"), E>>), Ln("exec", <<Lit("htouch"), A>>), Ln("exec", <<Lit("hgetenv"), Lit("V")>>),
  Ln("exec", <<>>), Ln("exec", <<Lit("&")>>),
  Ln("hecho", <<Lit("hello")>>), Not(Ln("hfail", <<>>)), Ln("hcat", <<>>), Not(Ln("hecho", <<Lit("hi")>>)),
  \* exists
  Ln("exists", <<A>>), Not(Ln("exists", <<A>>)), Ln("exists", <<NX>>), Not(Ln("exists", <<NX>>)),
  Ln("exists", <<Lit("-readonly"), A>>), Not(Ln("exists", <<Lit("-readonly"), A>>)), Ln("exists", <<A, E>>),
  Not(Ln("exists", <<E, A>>)), Ln("exists", <<>>), Ln("exists", <<Lit("-readonly")>>), Ln("exists", <<D>>),
  Ln("exists", <<L>>), Ln("exists", <<E>>), Ln("exists", <<Lit("-readonly"), D>>), Ln("exists", <<Abs(<<"d", "a">>)>>),
  \* grep / stdout / stderr
  Ln("grep", <<Lit("hello"), A>>), Not(Ln("grep", <<Lit("hello"), A>>)), Ln("grep", <<Lit("nomatch"), A>>),
  Not(Ln("grep", <<Lit("nomatch"), A>>)), Ln("grep", <<Cnt(2), Lit("l"), A>>), Ln("grep", <<Cnt(1), Lit("l"), A>>),
  Not(Ln("grep", <<Cnt(1), Lit("l"), A>>)), Ln("grep", <<Cnt(0), Lit("l"), A>>), Ln("grep", <<Lit("hello"), NX>>),
  Ln("grep", <<Lit("hello")>>), Ln("grep", <<Lit("("), A>>), Ln("grep", <<Lit("hello"), B>>), Ln("grep", <<Lit("hello"), D>>),
  Ln("stdout", <<Lit("hi")>>), Not(Ln("stdout", <<Lit("hi")>>)), Ln("stdout", <<Cnt(1), Lit("hi")>>),
  Ln("stdout", <<Cnt(2), Lit("l")>>), Ln("stdout", <<>>), Ln("stdout", <<Lit("hello")>>), Not(Ln("stdout", <<Lit("hello")>>)),
  Ln("stderr", <<Lit("se")>>), Not(Ln("stderr", <<Lit("se")>>)), Ln("stderr", <<Lit("hi"), Lit("hi")>>),
  \* mkdir
  Ln("mkdir", <<E>>), Ln("mkdir", <<D>>), Ln("mkdir", <<A>>), Ln("mkdir", <<Abs(<<"e", "b">>)>>), Ln("mkdir", <<>>),
  Not(Ln("mkdir", <<E>>)), Ln("mkdir", <<E, A>>), Ln("mkdir", <<L>>),
  \* mv
  Ln("mv", <<A, E>>), Ln("mv", <<A, B>>), Ln("mv", <<NX, E>>), Ln("mv", <<D, E>>), Ln("mv", <<A, D>>), Ln("mv", <<D, A>>),
  Ln("mv", <<A>>), Not(Ln("mv", <<A, E>>)), Ln("mv", <<A, Rel(<<"d", "b">>)>>), Ln("mv", <<L, E>>), Ln("mv", <<A, A>>),
  \* rm
  RM, Ln("rm", <<NX>>), Ln("rm", <<D>>), Ln("rm", <<>>), Not(RM), Ln("rm", <<A, B>>), Ln("rm", <<L>>),
  \* skip / stop
  Ln("skip", <<>>), Ln("skip", <<Lit("why")>>), Ln("skip", <<A, B>>), Not(Ln("skip", <<>>)),
  Ln("stop", <<>>), Ln("stop", <<Lit("why")>>), Ln("stop", <<A, B>>), Not(Ln("stop", <<>>)),
  \* stdin
  Ln("stdin", <<A>>), Ln("stdin", <<Lit("stdout")>>), Ln("stdin", <<NX>>), Ln("stdin", <<>>), Not(Ln("stdin", <<A>>)),
  \* symlink
  Ln("symlink", <<L, Lit("->"), A>>), Ln("symlink", <<L, Lit("->"), E>>), Ln("symlink", <<L, Lit("->"), D>>),
  Ln("symlink", <<A, Lit("->"), B>>), Ln("symlink", <<L, A>>), Not(Ln("symlink", <<L, Lit("->"), A>>)),
  Ln("symlink", <<L, Lit("->"), L>>),
  \* unquote / unix2dos
  Ln("unquote", <<B>>), Ln("unquote", <<A>>), Ln("unquote", <<>>), Ln("unquote", <<NX>>), Not(Ln("unquote", <<B>>)),
  Ln("unix2dos", <<A>>), Ln("unix2dos", <<>>), Ln("unix2dos", <<NX>>), Not(Ln("unix2dos", <<A>>)), Ln("unix2dos", <<B, A>>),
  Ln("unix2dos", <<Rel(<<"e", "b">>)>>), Ln("grep", <<Cnt(1), Lit("hello"), Rel(<<"e", "b">>)>>),
  \* custom commands, unknown commands, lone prefixes
  Ln("probe", <<>>), Not(Ln("probe", <<>>)), Ln("cfail", <<>>), Not(Ln("cfail", <<>>)), Ln("cout", <<>>),
  Ln("nosuchcmd", <<>>), Not(Ln("nosuchcmd", <<A>>)), Not(Ln("", <<>>)),
  \* conditions
  If("linux", RM), If("windows", RM), Unless("linux", RM), Unless("windows", RM), If("unix", RM),
  If("exec:hcat", RM), If("exec:nosuchprog", RM), If("gc", RM), If("go1.18", RM), If("go1.999", RM),
  If("nosuchcond", RM), If("ctrue", RM), If("cfalse", RM), If("cerr", RM), Unless("cfalse", RM), Unless("nosuchcond", RM),
  If("cvar", RM), Unless("cvar", RM),
  If("linux", If("windows", Ln("nosuchcmd", <<>>))), If("windows", If("nosuchcond", Ln("nosuchcmd", <<>>))),
  If("linux", Unless("windows", RM)), If("linux", If("nosuchcond", RM)),
  \* every polarity combination of two guards (a negated guard must not change how the next one is read)
  Unless("windows", If("linux", RM)), Unless("windows", If("windows", RM)), Unless("linux", If("linux", RM)),
  Unless("windows", Unless("windows", RM)), Unless("windows", Unless("linux", RM)), If("linux", Unless("linux", RM)),
  Unless("windows", If("linux", Ln("cfail", <<>>))), Unless("windows", If("windows", Ln("cfail", <<>>))),
  If("windows", Ln("nosuchcmd", <<>>)), If("linux", Ln("nosuchcmd", <<>>)),
  If("linux", Ln("", <<>>)), If("windows", Ln("", <<>>)), If("windows", Not(Ln("", <<>>))), If("linux", Not(Ln("", <<>>))),
  If("linux", Not(Ln("exists", <<A>>))), If("windows", Not(Ln("exists", <<A>>))), Unless("windows", Not(Ln("exists", <<E>>))),
  If("linux", Ln("stop", <<>>)), If("windows", Ln("stop", <<>>)), If("linux", Ln("skip", <<>>)), If("windows", Ln("skip", <<>>)),
  If("windows", Ln("cfail", <<>>)), If("linux", Ln("cfail", <<>>)), If("windows", Not(RM)), If("linux", Not(RM)),
  \* tokeniser errors come first
  Unterminated(RM), If("windows", Unterminated(RM))
>>

BgLines == <<
  Ln("exec", <<Lit("hecho"), Lit("hi"), Lit("&")>>), Ln("exec", <<Lit("hfail"), Lit("&")>>),
  Not(Ln("exec", <<Lit("hfail"), Lit("&")>>)), Not(Ln("exec", <<Lit("hecho"), Lit("hi"), Lit("&")>>)),
  Ln("exec", <<Lit("hblock"), Lit("&")>>), Not(Ln("exec", <<Lit("hblock"), Lit("&")>>)),
  Ln("exec", <<Lit("hblock"), Lit("&n1&")>>), Ln("exec", <<Lit("hecho"), Lit("hello"), Lit("&n1&")>>),
  Not(Ln("exec", <<Lit("hfail"), Lit("&n2&")>>)), Not(Ln("exec", <<Lit("hecho"), Lit("hi"), Lit("&n2&")>>)),   \* the second one: wait n2 must fail
  Ln("exec", <<Lit("nosuchprog"), Lit("&")>>), Not(Ln("exec", <<Lit("nosuchprog"), Lit("&")>>)),
  Ln("exec", <<Lit("&n1&")>>),
  Ln("wait", <<>>), Ln("wait", <<Lit("n1")>>), Ln("wait", <<Lit("n2")>>), Ln("wait", <<Lit("nx")>>), Ln("wait", <<A, B>>), Not(Ln("wait", <<>>)),
  Ln("kill", <<>>), Ln("kill", <<Lit("-INT")>>), Ln("kill", <<Lit("-KILL"), Lit("n1")>>), Ln("kill", <<Lit("n1")>>),
  Ln("kill", <<Lit("-FOO")>>), Ln("kill", <<Lit("nx")>>), Not(Ln("kill", <<>>)), Ln("kill", <<A, B, A>>)
>>

\* without the background slice wait / kill still occur with nothing running
FgOnly == << Ln("wait", <<>>), Ln("wait", <<Lit("n1")>>), Not(Ln("wait", <<>>)), Ln("kill", <<>>), Ln("kill", <<Lit("-FOO")>>),
             Ln("kill", <<Lit("n1")>>), Not(Ln("kill", <<>>)) >>

\* the lines that move data through the hidden script state (stdin, stdout / stderr buffers, env, cd,
\* background list): explored one line deeper than the full vocabulary, because what they change
\* only shows two lines later
FlowLines == <<
  Ln("stdin", <<A>>), Ln("stdin", <<Lit("stdout")>>), Ln("exec", <<Lit("hcat")>>), Ln("hcat", <<>>),
  Ln("exec", <<Lit("hecho"), Lit("hi")>>), Ln("exec", <<Lit("hfail")>>), Not(Ln("exec", <<Lit("hfail")>>)),
  Ln("exec", <<Lit("nosuchprog")>>), Not(Ln("exec", <<Lit("nosuchprog")>>)), Ln("exec", <<Lit("hgetenv"), Lit("V")>>),
  Ln("exec", <<Lit("htouch"), E>>), Ln("env", <<KV("V", <<104, 101, 108, 108, 111>>)>>), Ln("cd", <<D>>), Ln("cd", <<NX>>),
  Ln("cp", <<Lit("stdout"), B>>), Ln("cp", <<Lit("stderr"), B>>), Ln("cmp", <<Lit("stdout"), A>>), Ln("cmpenv", <<A, B>>),
  Ln("unquote", <<B>>), Ln("stdout", <<Lit("hi")>>), Not(Ln("stdout", <<Lit("hello")>>)), Ln("stderr", <<Lit("se")>>),
  Ln("cout", <<>>), Ln("cfail", <<>>), Ln("rm", <<A>>), Ln("cpause", <<>>),
  Ln("exec", <<Lit("hecho"), Lit("hi"), Lit("&")>>), Not(Ln("exec", <<Lit("hfail"), Lit("&")>>)), Ln("exec", <<Lit("hfail"), Lit("&n1&")>>),
  Ln("exec", <<Lit("hblock"), Lit("&")>>), Not(Ln("exec", <<Lit("hblock"), Lit("&n1&")>>)),
  Ln("wait", <<>>), Ln("wait", <<Lit("n1")>>), Ln("kill", <<>>), Ln("kill", <<Lit("-INT"), Lit("n1")>>),
  Ln("skip", <<>>), Ln("stop", <<>>)
>>

\* three background commands alive at once (the generators above stop at two): what `wait name` takes out of the middle of
\* the list, and what a bare `wait` then reports, in start order
Bg3Lines == <<
  Ln("exec", <<Lit("hecho"), Lit("hello"), Lit("&n1&")>>), Ln("exec", <<Lit("hecho"), Lit("hi"), Lit("&")>>),
  Not(Ln("exec", <<Lit("hfail"), Lit("&n2&")>>)), Ln("wait", <<Lit("n1")>>), Ln("wait", <<Lit("n2")>>), Ln("wait", <<>>),
  Ln("cpause", <<>>), Ln("kill", <<Lit("n1")>>)
>>
MaxBg == IF "bg3" \in Slice THEN 3 ELSE 2

MCLineSeq == IF "bg3" \in Slice THEN Bg3Lines ELSE IF "flow" \in Slice THEN FlowLines
             ELSE (IF "fg" \in Slice THEN FgLines ELSE <<>>) \o (IF "bg" \in Slice THEN BgLines ELSE FgOnly)

\* at most two background commands at a time (three in the slice made for it; bound of the model, not of the language)
MCNext == \E i \in 1..Len(LineSeq) :
             /\ IF Len(bg) >= MaxBg /\ LineSeq[i].cmd = "exec" /\ Len(LineSeq[i].args) > 0
                THEN LineSeq[i].args[Len(LineSeq[i].args)].s \notin BgSpecs ELSE TRUE
             /\ Step(i)

\* the literal match counts of the specification on sample texts: the driver compares them with Go's regexp
SampleTexts == UNION {{InitFS[k][p].c : p \in {q \in Universe : InitFS[k][q].k = "file"}} : k \in DOMAIN InitFS}
               \cup {Str[w] \o <<LF>> : w \in {"hi", "so", "se", "hello"}}
               \cup {Unix2Dos(InitFS[1][<<"a">>].c), InitFS[1][<<"a">>].c \o InitFS[1][<<"a">>].c, <<>>}
MatchTab == {[pat |-> w, text |-> t, n |-> Count(Str[w], t)] : w \in (DOMAIN Str) \ BadPats, t \in SampleTexts}
Header == PrintT(<<"EMIT", ToJson([header |-> TRUE, vocab |-> LineSeq, profiles |-> Profiles,
                                    init |-> [k \in DOMAIN InitFS |-> TreeOf(InitFS[k])], str |-> Str, badpats |-> BadPats, matchtab |-> MatchTab])>>)
MCInit == Init /\ (root = (CHOOSE r \in Roots : TRUE) => Header)
MCSpec == MCInit /\ [][MCNext]_vars
=============================================================================
