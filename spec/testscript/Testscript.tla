----------------------------- MODULE Testscript -----------------------------
(***************************************************************************)
(* Reference interpreter of the testscript language (C01), as a state      *)
(* machine: one action per script line.  It is written from doc.go (the    *)
(* documented command set) and the property statement, with every failure  *)
(* rule the statement leaves to "the way that command defines" taken from  *)
(* cmd.go / testscript.go and confirmed on the real engine (DESIGN.md      *)
(* section C01, observed rule table).                                      *)
(*                                                                         *)
(* The statement, in the terms of this module:                             *)
(*   - a line whose [cond] guards do not all hold is not executed;         *)
(*   - an executed line "meets its demand" when RunLine(...).ok;           *)
(*   - without ContinueOnError the first line that does not ends the run   *)
(*     as failed, nothing after it has any effect;                         *)
(*   - with ContinueOnError every line runs, the run still fails;          *)
(*   - stop ends the run as passed (failed if a line failed before),       *)
(*     skip ends it as skipped (idem);                                     *)
(*   - the reported line is the first line that did not meet its demand.   *)
(*                                                                         *)
(* Script state (TestScript struct): fs (work tree), cd, env, out / err    *)
(* (stdout / stderr buffers), inp (stdin for the next exec), bg            *)
(* (background commands).  Run state: verdict, failed, lineno, failLines.  *)
(* hist, effects, met are history variables (hidden by the VIEW of the     *)
(* generator).                                                             *)
(***************************************************************************)
EXTENDS TsBytes, TsFS, Json

CONSTANTS
  Vars,        \* environment variables the scripts set and read
  VarBytes,    \* their names as bytes (for $NAME inside file contents)
  Str,         \* literal word -> its bytes (patterns, arguments of hecho)
  BadPats,     \* pattern words that do not compile as a regular expression
  Profiles,    \* profile name -> [explicit, hascond, cmds, unique, dup, arch]
  LineSeq,     \* the vocabulary: a sequence of lines (a script is a sequence of indexes into it)
  Roots,       \* the configurations explored: a set of [coe, prof]
  DepthOf,     \* profile name -> maximal script length explored under it
  InitFS,      \* archive number -> the tree that initial archive unpacks to
  EmitMode,    \* "all": one case per transition; "terminal": only finished / full-length scripts; "none"
  Bug          \* "none", or the name of a seeded fault (Bug_*.cfg)

\* ------------------------------------------------------------------------
\* words and lines

W0 == [k |-> "lit", p |-> <<>>, s |-> "", b |-> <<>>, n |-> 0]
Lit(s) == [W0 EXCEPT !.s = s]                          \* a literal word; as a file name: the path <<s>>
Rel(p) == [W0 EXCEPT !.k = "rel", !.p = p]             \* relative path d/a
Abs(p) == [W0 EXCEPT !.k = "abs", !.p = p]             \* $WORK/d/a
KV(v, b) == [W0 EXCEPT !.k = "kv", !.s = v, !.b = b]   \* NAME=value
Cnt(n) == [W0 EXCEPT !.k = "cnt", !.n = n]             \* -count=N

IsLit(w, s) == w.k = "lit" /\ w.s = s
PathOf(w) == IF w.k = "lit" THEN <<w.s>> ELSE w.p
AbsOf(cd, w) == IF w.k = "abs" THEN Clean(w.p) ELSE Clean(cd \o PathOf(w))

\* line = [cond]... [!] cmd args...
\*   conds: sequence of [n |-> name, neg |-> written as [!name]]
\*   cmd = ""  : no command word ("!" alone, "[cond]" alone, blank line)
\*   cmd = "#" : a comment line
\*   tok = "unterminated": the line ends inside a quoted word
\*   alt: doc.go and the engine disagree on the arity of this line (see AltResult)
Ln(cmd, args) == [conds |-> <<>>, neg |-> FALSE, cmd |-> cmd, args |-> args, tok |-> "ok", alt |-> FALSE]
Not(l) == [l EXCEPT !.neg = TRUE]
If(c, l) == [l EXCEPT !.conds = <<[n |-> c, neg |-> FALSE]>> \o @]
Unless(c, l) == [l EXCEPT !.conds = <<[n |-> c, neg |-> TRUE]>> \o @]
Unterminated(l) == [l EXCEPT !.tok = "unterminated"]
Alt(l) == [l EXCEPT !.alt = TRUE]

IsPad(l) == l.tok = "ok" /\ l.conds = <<>> /\ ~l.neg /\ l.cmd \in {"", "#"}

\* ------------------------------------------------------------------------
\* command sets

Builtins == {"cd", "chmod", "cmp", "cmpenv", "cp", "env", "exec", "exists", "grep", "kill", "mkdir",
             "mv", "rm", "skip", "stderr", "stdin", "stdout", "stop", "symlink", "unix2dos", "unquote", "wait"}
\* [!] is documented for these only
NegOK == {"cmp", "cmpenv", "exec", "exists", "grep", "stderr", "stdout"}
NoNeg == Builtins \ NegOK
\* programs registered through testscript.Main: "foo" means "exec foo"
Helpers == {"hecho", "hfail", "hcat", "htouch", "hgetenv", "hblock"}
Customs == {"probe", "cfail", "cout", "cpause"}

TrueConds == {"linux", "unix", "exec:hcat", "gc", "go1.18", "symlink"}
FalseConds == {"windows", "exec:nosuchprog", "go1.999", "gccgo"}

BgSpecs == {"&", "&n1&", "&n2&"}
BgName(w) == CASE w = "&n1&" -> "n1" [] w = "&n2&" -> "n2" [] OTHER -> ""

\* chmod modes: valid octal permission words and whether any write bit is set
Modes == {"444", "555", "644", "666", "755"}
ModeW(m) == m \in {"644", "666", "755"}

\* ------------------------------------------------------------------------
\* results

\* s = [fs, cd, env, out, err, inp, bg, stop, skip, eff]
Ok(s) == [ok |-> TRUE, why |-> "ok", s |-> s]
Fail(s) == [ok |-> FALSE, why |-> "error", s |-> s]      \* usage, unsupported !, unreadable file ...
Unmet(s) == [ok |-> FALSE, why |-> "demand", s |-> s]    \* the tested predicate is the wrong way round
Demand(neg, holds, s) == IF holds # neg THEN Ok(s) ELSE Unmet(s)

Obs(s) == [cd |-> s.cd, v |-> s.env["V"], out |-> s.out, err |-> s.err]

EnvTab(s) == {<<VarBytes[v], s.env[v]>> : v \in Vars}

\* ReadFile(name): "stdout" / "stderr" name the buffers
ReadArg(s, w) ==
  IF IsLit(w, "stdout") THEN [ok |-> TRUE, c |-> s.out]
  ELSE IF IsLit(w, "stderr") THEN [ok |-> TRUE, c |-> s.err]
  ELSE Read(s.fs, AbsOf(s.cd, w))

\* ------------------------------------------------------------------------
\* file commands

CmdCd(s, neg, a) ==
  IF neg \/ Len(a) # 1 THEN Fail(s)
  ELSE LET p == AbsOf(s.cd, a[1]) IN
       IF IsDir(s.fs, p) THEN Ok([s EXCEPT !.cd = p]) ELSE Fail(s)

RECURSIVE ChmodLoop(_, _, _, _)
ChmodLoop(s, w, a, i) ==
  IF i > Len(a) THEN Ok(s)
  ELSE LET r == Chmod(s.fs, AbsOf(s.cd, a[i]), w) IN
       IF r.ok THEN ChmodLoop([s EXCEPT !.fs = r.fs], w, a, i + 1) ELSE Fail(s)

\* doc.go: "chmod perm path..."
CmdChmod(s, neg, a) ==
  IF neg \/ Len(a) < 2 THEN Fail(s)
  ELSE IF ~(a[1].k = "lit" /\ a[1].s \in Modes) THEN Fail(s)
  ELSE ChmodLoop(s, ModeW(a[1].s), a, 2)

CmdCmp(s, neg, a, expand) ==
  IF Len(a) # 2 THEN Fail(s)
  ELSE IF a[1] = a[2] THEN Fail(s)                \* "cannot compare a file against itself" (names as written)
  ELSE LET r1 == ReadArg(s, a[1])
           r2 == Read(s.fs, AbsOf(s.cd, a[2]))    \* the second name is always a file
       IN IF ~r1.ok \/ ~r2.ok THEN Fail(s)
          ELSE LET t2 == IF expand THEN Expand(r2.c, EnvTab(s)) ELSE r2.c IN
               IF Bug = "NegIgnored" THEN Demand(FALSE, r1.c = t2, s) ELSE Demand(neg, r1.c = t2, s)

RECURSIVE CpLoop(_, _, _, _, _)
CpLoop(s, a, i, dst, dstDir) ==
  IF i >= Len(a) THEN Ok(s)
  ELSE LET w == a[i]
           kw == IsLit(w, "stdout") \/ IsLit(w, "stderr")
           src == AbsOf(s.cd, w)
           rd == IF kw THEN [ok |-> TRUE, c |-> IF IsLit(w, "stdout") THEN s.out ELSE s.err]
                 ELSE Read(s.fs, src)
           wbit == IF kw THEN TRUE ELSE Writable(s.fs, src)
           base == IF kw THEN w.s ELSE Last(src)
           targ == IF dstDir THEN Append(dst, base) ELSE dst
       IN IF ~rd.ok THEN Fail(s)
          ELSE LET r == Write(s.fs, targ, rd.c, wbit) IN
               IF r.ok THEN CpLoop([s EXCEPT !.fs = r.fs], a, i + 1, dst, dstDir) ELSE Fail(s)

CmdCp(s, neg, a) ==
  IF neg \/ Len(a) < 2 THEN Fail(s)
  ELSE LET dst == AbsOf(s.cd, a[Len(a)])
           dstDir == IsDir(s.fs, dst)
       IN IF Len(a) > 2 /\ ~dstDir THEN Fail(s) ELSE CpLoop(s, a, 1, dst, dstDir)

RECURSIVE EnvLoop(_, _, _)
EnvLoop(s, a, i) ==
  IF i > Len(a) THEN Ok(s)
  ELSE IF a[i].k = "kv"
       THEN IF a[i].s \in Vars THEN EnvLoop([s EXCEPT !.env[a[i].s] = a[i].b], a, i + 1)
            ELSE Assert(FALSE, <<"env: variable not modelled", a[i].s>>)
       ELSE EnvLoop(s, a, i + 1)                  \* NAME without '=' prints the value

CmdEnv(s, neg, a) == IF neg THEN Fail(s) ELSE EnvLoop(s, a, 1)

RECURSIVE ExistsLoop(_, _, _, _, _)
ExistsLoop(s, neg, ro, a, i) ==
  IF i > Len(a) THEN Ok(s)
  ELSE LET p == AbsOf(s.cd, a[i])
           ex == Exists(s.fs, p)
       IN IF ex /\ neg THEN Unmet(s)
          ELSE IF ~ex /\ ~neg THEN Unmet(s)
          ELSE IF ex /\ ~neg /\ ro /\ Writable(s.fs, p) THEN Unmet(s)
          ELSE ExistsLoop(s, neg, ro, a, i + 1)

CmdExists(s, neg, a) ==
  LET ro == Len(a) > 0 /\ IsLit(a[1], "-readonly")
      files == IF ro THEN Tail(a) ELSE a
  IN IF files = <<>> THEN Fail(s) ELSE ExistsLoop(s, neg, ro, files, 1)

\* grep / stdout / stderr
Match(s, neg, a, buf, isGrep) ==
  LET hasCnt == Len(a) >= 1 /\ a[1].k = "cnt"
      n == IF hasCnt THEN a[1].n ELSE 0
      rest == IF hasCnt THEN Tail(a) ELSE a
  IN IF hasCnt /\ (neg \/ n < 1) THEN Fail(s)
     ELSE IF Len(rest) # (IF isGrep THEN 2 ELSE 1) THEN Fail(s)
     ELSE IF rest[1].s \in BadPats THEN Fail(s)
     ELSE LET rd == IF isGrep THEN Read(s.fs, AbsOf(s.cd, rest[2])) ELSE [ok |-> TRUE, c |-> buf] IN
          IF ~rd.ok THEN Fail(s)
          ELSE LET m == Count(Str[rest[1].s], rd.c) IN
               IF neg THEN (IF m > 0 THEN Unmet(s) ELSE Ok(s))
               ELSE IF m = 0 THEN Unmet(s)
               ELSE IF n > 0 /\ m # n THEN Unmet(s)
               ELSE Ok(s)

RECURSIVE MkdirLoop(_, _, _)
MkdirLoop(s, a, i) ==
  IF i > Len(a) THEN Ok(s)
  ELSE LET r == MkdirAll(s.fs, AbsOf(s.cd, a[i])) IN
       IF r.ok THEN MkdirLoop([s EXCEPT !.fs = r.fs], a, i + 1) ELSE Fail(s)

CmdMkdir(s, neg, a) == IF neg \/ Len(a) < 1 THEN Fail(s) ELSE MkdirLoop(s, a, 1)

CmdMv(s, neg, a) ==
  IF neg \/ Len(a) # 2 THEN Fail(s)
  ELSE LET r == Rename(s.fs, AbsOf(s.cd, a[1]), AbsOf(s.cd, a[2])) IN
       IF r.ok THEN Ok([s EXCEPT !.fs = r.fs]) ELSE Fail(s)

RECURSIVE RmLoop(_, _, _)
RmLoop(s, a, i) ==
  IF i > Len(a) THEN Ok(s)
  ELSE LET r == RemoveAll(s.fs, AbsOf(s.cd, a[i])) IN
       IF r.ok THEN RmLoop([s EXCEPT !.fs = r.fs], a, i + 1) ELSE Fail(s)

CmdRm(s, neg, a) ==
  IF Bug = "NegatedRmRuns" /\ neg /\ Len(a) >= 1 THEN RmLoop(s, a, 1)
  ELSE IF neg \/ Len(a) < 1 THEN Fail(s) ELSE RmLoop(s, a, 1)

CmdStdin(s, neg, a) ==
  IF neg \/ Len(a) # 1 THEN Fail(s)
  ELSE LET r == ReadArg(s, a[1]) IN
       IF r.ok THEN Ok([s EXCEPT !.inp = r.c]) ELSE Fail(s)

CmdSymlink(s, neg, a) ==
  IF neg \/ Len(a) # 3 THEN Fail(s)
  ELSE IF ~IsLit(a[2], "->") THEN Fail(s)
  ELSE LET r == Symlink(s.fs, PathOf(a[3]), AbsOf(s.cd, a[1])) IN   \* the target is stored as written
       IF r.ok THEN Ok([s EXCEPT !.fs = r.fs]) ELSE Fail(s)

\* unquote / unix2dos rewrite each file in turn
RECURSIVE RewriteLoop(_, _, _, _)
RewriteLoop(s, a, i, unq) ==
  IF i > Len(a) THEN Ok(s)
  ELSE LET p == AbsOf(s.cd, a[i])
           rd == Read(s.fs, p)
       IN IF ~rd.ok THEN Fail(s)
          ELSE IF unq /\ ~UnquoteOK(rd.c) THEN Fail(s)
          ELSE LET r == Write(s.fs, p, IF unq THEN Unquote(rd.c) ELSE Unix2Dos(rd.c), TRUE) IN
               IF r.ok THEN RewriteLoop([s EXCEPT !.fs = r.fs], a, i + 1, unq) ELSE Fail(s)

CmdUnquote(s, neg, a) == IF neg THEN Fail(s) ELSE RewriteLoop(s, a, 1, TRUE)     \* no arguments: nothing to do
CmdUnix2dos(s, neg, a) == IF neg \/ Len(a) < 1 THEN Fail(s) ELSE RewriteLoop(s, a, 1, FALSE)

CmdStop(s, neg, a) == IF neg \/ Len(a) > 1 THEN Fail(s) ELSE Ok([s EXCEPT !.stop = TRUE])

\* ------------------------------------------------------------------------
\* programs (the helper binaries of the harness have exactly this behaviour)
\*   hecho W     prints W and a newline, status 0
\*   hfail       prints "so\n" to stdout, "se\n" to stderr, status 1
\*   hcat        copies stdin to stdout, status 0
\*   htouch N    writes "t\n" to the file N in its directory; status 1 and a message if it cannot
\*   hgetenv V   prints the value of V in its environment and a newline, status 0
\*   hblock      prints nothing and never exits by itself; SIGINT / SIGKILL end it (status: failure)
\* result: [exit0, out, err, fs]
Program(prog, pa, s) ==
  CASE prog = "hecho" -> [exit0 |-> TRUE, out |-> Str[pa[1].s] \o <<LF>>, err |-> <<>>, fs |-> s.fs]
    [] prog = "hfail" -> [exit0 |-> FALSE, out |-> Str["so"] \o <<LF>>, err |-> Str["se"] \o <<LF>>, fs |-> s.fs]
    [] prog = "hcat" -> [exit0 |-> TRUE, out |-> s.inp, err |-> <<>>, fs |-> s.fs]
    [] prog = "htouch" -> LET r == Write(s.fs, AbsOf(s.cd, pa[1]), <<116, LF>>, TRUE) IN
                          [exit0 |-> r.ok, out |-> <<>>,
                           err |-> IF r.ok THEN <<>> ELSE Str["htouch: failed"] \o <<LF>>, fs |-> r.fs]
    [] prog = "hgetenv" -> [exit0 |-> TRUE, out |-> s.env[pa[1].s] \o <<LF>>, err |-> <<>>, fs |-> s.fs]
    [] OTHER -> Assert(FALSE, <<"program not modelled in the foreground", prog>>)

\* background entry: [name, neg, kind, st, out, err]
\*   kind "echo" / "fail": exits by itself with status 0 / 1;  "block": hblock
\*   st   "run" (started, not waited for), "sig" (signalled, not waited for), "reaped",
\*        "gone" (known to have ended by itself - the script let time pass with cpause -, not waited for)
BgEntry(name, neg, prog, pa) ==
  CASE prog = "hecho" -> [name |-> name, neg |-> neg, kind |-> "echo", st |-> "run",
                          out |-> Str[pa[1].s] \o <<LF>>, err |-> <<>>]
    [] prog = "hfail" -> [name |-> name, neg |-> neg, kind |-> "fail", st |-> "run",
                          out |-> Str["so"] \o <<LF>>, err |-> Str["se"] \o <<LF>>]
    [] prog = "hblock" -> [name |-> name, neg |-> neg, kind |-> "block", st |-> "run", out |-> <<>>, err |-> <<>>]
    [] OTHER -> Assert(FALSE, <<"program not modelled in the background", prog>>)

Success(e) == e.kind = "echo"
StatusOK(e) == Success(e) # e.neg
FindBg(b, name) == IF name = "" THEN 0
                   ELSE IF \E i \in 1..Len(b) : b[i].name = name
                        THEN CHOOSE i \in 1..Len(b) : b[i].name = name /\ \A j \in 1..(i - 1) : b[j].name # name
                        ELSE 0

CmdExec(s, neg, a) ==
  IF Len(a) < 1 \/ (Len(a) = 1 /\ IsLit(a[1], "&")) THEN Fail(s)
  ELSE LET last == a[Len(a)]
           isBg == last.k = "lit" /\ last.s \in BgSpecs
           prog == a[1].s
           found == prog \in Helpers                         \* looked up in PATH
           started == found /\ IsDir(s.fs, s.cd)             \* the child starts in cd
           inp1 == IF found THEN <<>> ELSE s.inp             \* stdin is consumed once the program was found
       IN
       IF isBg THEN
         IF Len(a) = 1 THEN Fail(s)                          \* "exec &name&": no program (usage)
         ELSE IF FindBg(s.bg, BgName(last.s)) # 0 THEN Fail(s)   \* duplicate background name
         ELSE LET pa == SubSeq(a, 2, Len(a) - 1)
                  s1 == [s EXCEPT !.out = <<>>, !.err = <<>>, !.inp = inp1]
              IN IF started THEN Ok([s1 EXCEPT !.bg = Append(@, BgEntry(BgName(last.s), neg, prog, pa))])
                 ELSE IF neg THEN Ok(s1) ELSE Unmet(s1)
       ELSE
         IF ~started THEN Demand(neg, FALSE, [s EXCEPT !.out = <<>>, !.err = <<>>, !.inp = inp1])
         ELSE LET r == Program(prog, Tail(a), s) IN
              Demand(neg, r.exit0, [s EXCEPT !.out = r.out, !.err = r.err, !.inp = <<>>, !.fs = r.fs])

\* wait: statuses are checked in start order; at the first one that contradicts
\* its [!] the command fails, keeping the list and the buffers
RECURSIVE FirstBad(_, _)
FirstBad(b, i) == IF i > Len(b) THEN 0 ELSE IF ~StatusOK(b[i]) THEN i ELSE FirstBad(b, i + 1)

WaitAll(s) ==
  LET k == FirstBad(s.bg, 1) IN
  IF k = 0 THEN Ok([s EXCEPT !.out = Concat([i \in 1..Len(s.bg) |-> s.bg[i].out]),
                             !.err = Concat([i \in 1..Len(s.bg) |-> s.bg[i].err]),
                             !.bg = <<>>])
  ELSE Unmet([s EXCEPT !.bg = [i \in 1..Len(s.bg) |-> IF i <= k THEN [s.bg[i] EXCEPT !.st = "reaped"] ELSE s.bg[i]]])

WaitOne(s, name) ==
  LET i == FindBg(s.bg, name) IN
  IF i = 0 THEN Fail(s)
  ELSE LET e == s.bg[i]
           s1 == [s EXCEPT !.out = e.out, !.err = e.err]
       IN IF StatusOK(e) THEN Ok([s1 EXCEPT !.bg = SubSeq(s.bg, 1, i - 1) \o SubSeq(s.bg, i + 1, Len(s.bg))])
          ELSE Unmet([s1 EXCEPT !.bg[i].st = "reaped"])

CmdWait(s, neg, a) ==
  IF Len(a) > 1 \/ neg THEN Fail(s)
  ELSE IF Len(a) = 1 THEN WaitOne(s, a[1].s) ELSE WaitAll(s)

\* kill [-SIGNAL] [name]; signalling a process that was already waited for is an error
RECURSIVE KillFrom(_, _)
KillFrom(s, i) ==
  IF i > Len(s.bg) THEN Ok(s)
  ELSE IF s.bg[i].st \in {"reaped", "gone"} THEN Fail(s)
  ELSE KillFrom([s EXCEPT !.bg[i].st = "sig"], i + 1)

CmdKill(s, neg, a) ==
  IF Len(a) > 2 THEN Fail(s)
  ELSE LET hasSig == Len(a) >= 1 /\ a[1].s \in {"-INT", "-KILL", "-FOO"}
           name == IF Len(a) = 0 THEN "" ELSE IF ~hasSig THEN a[1].s ELSE IF Len(a) = 2 THEN a[2].s ELSE ""
       IN IF hasSig /\ a[1].s = "-FOO" THEN Fail(s)              \* unknown signal
          ELSE IF neg THEN Fail(s)
          ELSE IF name = "" THEN KillFrom(s, 1)
          ELSE LET i == FindBg(s.bg, name) IN
               IF i = 0 \/ s.bg[i].st \in {"reaped", "gone"} THEN Fail(s)
               ELSE Ok([s EXCEPT !.bg[i].st = "sig"])

\* skip: interrupt everything in the background, wait for it checking statuses, then skip
CmdSkip(s, neg, a) ==
  IF Len(a) > 1 \/ neg THEN Fail(s)
  ELSE LET s1 == [s EXCEPT !.bg = [i \in 1..Len(s.bg) |-> IF s.bg[i].st = "run" THEN [s.bg[i] EXCEPT !.st = "sig"] ELSE s.bg[i]]]
           r == WaitAll(s1)
       IN IF r.ok THEN Ok([r.s EXCEPT !.skip = TRUE]) ELSE r

\* ------------------------------------------------------------------------
\* custom commands of the harness (Params.Cmds)
\*   probe   records what it sees; [!] not supported
\*   cfail   fails through ts.Fatalf unless negated
\*   cout    writes "c\n" to ts.Stdout(); [!] not supported
\*   cpause  does nothing for a while (time for background commands to end by themselves); [!] not supported
CmdCustom(cmd, s, neg, a) ==
  CASE cmd = "probe" -> IF neg THEN Fail(s) ELSE Ok([s EXCEPT !.eff = Append(@, Obs(s))])
    [] cmd = "cfail" -> Demand(neg, FALSE, s)
    [] cmd = "cout" -> IF neg THEN Fail(s) ELSE Ok([s EXCEPT !.out = <<99, LF>>, !.err = <<>>])
    \* after the pause every background command that ends by itself has ended (and has been collected by the engine):
    \* signalling it is an error from now on, skip / wait / the end of the script find its status as before
    [] cmd = "cpause" -> IF neg THEN Fail(s)
                         ELSE Ok([s EXCEPT !.bg = [i \in 1..Len(s.bg) |-> IF s.bg[i].kind # "block" /\ s.bg[i].st = "run"
                                                                          THEN [s.bg[i] EXCEPT !.st = "gone"] ELSE s.bg[i]]])

\* ------------------------------------------------------------------------
\* one line

Dispatch(cmd, s, neg, a, P) ==
  CASE cmd = "cd" -> CmdCd(s, neg, a)
    [] cmd = "chmod" -> CmdChmod(s, neg, a)
    [] cmd = "cmp" -> CmdCmp(s, neg, a, FALSE)
    [] cmd = "cmpenv" -> CmdCmp(s, neg, a, TRUE)
    [] cmd = "cp" -> CmdCp(s, neg, a)
    [] cmd = "env" -> CmdEnv(s, neg, a)
    [] cmd = "exec" -> CmdExec(s, neg, a)
    [] cmd = "exists" -> CmdExists(s, neg, a)
    [] cmd = "grep" -> Match(s, neg, a, <<>>, TRUE)
    [] cmd = "stdout" -> Match(s, neg, a, s.out, FALSE)
    [] cmd = "stderr" -> Match(s, neg, a, s.err, FALSE)
    [] cmd = "kill" -> CmdKill(s, neg, a)
    [] cmd = "mkdir" -> CmdMkdir(s, neg, a)
    [] cmd = "mv" -> CmdMv(s, neg, a)
    [] cmd = "rm" -> CmdRm(s, neg, a)
    [] cmd = "skip" -> CmdSkip(s, neg, a)
    [] cmd = "stdin" -> CmdStdin(s, neg, a)
    [] cmd = "stop" -> CmdStop(s, neg, a)
    [] cmd = "symlink" -> CmdSymlink(s, neg, a)
    [] cmd = "unquote" -> CmdUnquote(s, neg, a)
    [] cmd = "unix2dos" -> CmdUnix2dos(s, neg, a)
    [] cmd = "wait" -> CmdWait(s, neg, a)
    [] cmd \in Helpers -> IF P.explicit THEN Fail(s) ELSE CmdExec(s, neg, <<Lit(cmd)>> \o a)
    [] cmd \in P.cmds -> CmdCustom(cmd, s, neg, a)
    [] OTHER -> Fail(s)                                       \* unknown command

CondEval(n, P) ==
  CASE n \in TrueConds -> "true"
    [] n \in FalseConds -> "false"
    [] n = "ctrue" /\ P.hascond -> "true"
    [] n = "cfalse" /\ P.hascond -> "false"
    \* a condition whose answer is not the same in every run of the process: it holds exactly in the runs with
    \* ContinueOnError (what Params.Condition says now counts, not what it said for an earlier script)
    [] n = "cvar" /\ P.hascond -> IF P.coe THEN "true" ELSE "false"
    [] OTHER -> "error"                                       \* unknown condition / Condition returns an error

\* conditions are read left to right: nothing after the bracket -> failure;
\* error -> failure; the first one that does not hold -> the rest of the line is ignored
RECURSIVE CondScan(_, _, _, _)
CondScan(cs, i, nothingAfter, P) ==
  IF i > Len(cs) THEN "run"
  ELSE IF i = Len(cs) /\ nothingAfter THEN "fail"
  ELSE LET v == CondEval(cs[i].n, P) IN
       IF v = "error" THEN "fail"
       ELSE IF (IF Bug = "CondInverted" THEN (v = "true") # cs[i].neg ELSE (v = "true") = cs[i].neg) THEN "skipline"
       ELSE CondScan(cs, i + 1, nothingAfter, P)

RunLine(l, s, P) ==
  IF l.tok = "unterminated" THEN Fail(s)                      \* the whole line is split into words first
  ELSE IF l.cmd = "#" THEN Ok(s)
  ELSE LET c == CondScan(l.conds, 1, ~l.neg /\ l.cmd = "", P) IN
       CASE c = "fail" -> Fail(s)
         [] c = "skipline" -> Ok(s)
         [] OTHER -> IF l.cmd = "" THEN (IF l.neg THEN Fail(s) ELSE Ok(s))    \* "!" alone / blank line
                     ELSE Dispatch(l.cmd, s, l.neg, l.args, P)

\* Lines whose outcome on the real system depends on timing are not part of the
\* language fragment (DESIGN.md, C01 limits): waiting for a process that never
\* exits, signalling a process that may or may not have exited by itself.
Racy(e) == e.kind # "block" /\ e.st = "run"
Deterministic(l, s) ==
  LET b == s.bg
      idx == 1..Len(b)
  IN CASE l.cmd = "wait" ->
            IF Len(l.args) = 1
            THEN LET i == FindBg(b, l.args[1].s) IN IF i = 0 THEN TRUE ELSE ~(b[i].kind = "block" /\ b[i].st = "run")
            ELSE \A i \in idx : ~(b[i].kind = "block" /\ b[i].st = "run")
       [] l.cmd = "kill" -> \A i \in idx : ~Racy(b[i]) /\ b[i].st # "sig"
       [] l.cmd = "skip" -> \A i \in idx : ~Racy(b[i])
       [] OTHER -> TRUE

\* doc.go says "chmod perm path..."; the engine accepts exactly one path and reports
\* a usage failure for more.  Both are accepted for a line marked alt (the failure is
\* loud and names the line, so the verdict law holds either way); which one the real
\* code shows is recorded as drift.
AltResult(s) == Fail(s)
\* ------------------------------------------------------------------------
\* the run: one action per script line

VARIABLES
  root,                                   \* configuration of this run (constant along a behaviour)
  fs, cd, env, out, err, inp, bg,         \* script state
  verdict,                                \* "running" | "pass" | "fail" | "skip"
  failed,                                 \* some executed line did not meet its demand
  lineno, failLines,                      \* current line number; numbers of the lines that failed
  hist, effects, met                      \* history: line indexes, probe observations, per-line outcome

vars == <<root, fs, cd, env, out, err, inp, bg, verdict, failed, lineno, failLines, hist, effects, met>>
\* the generator explores each (abstract state, script length) once: the history is hidden, the
\* length is not, so that the set of explored transitions does not depend on the order in which
\* TLC's workers reach a state (with the length hidden, a state first reached through a longer
\* script would be cut off by the depth bound)
View == <<root, fs, cd, env, out, err, inp, bg, verdict, failed, lineno>>

P == [coe |-> root.coe] @@ Profiles[root.prof]
Cur == [fs |-> fs, cd |-> cd, env |-> env, out |-> out, err |-> err, inp |-> inp, bg |-> bg,
        stop |-> FALSE, skip |-> FALSE, eff |-> <<>>]

\* RequireUniqueNames with an archive that holds a name twice: setup fails, no line runs
SetupFails(r) == Profiles[r.prof].dup /\ Profiles[r.prof].unique

FinalOf(v, f) == IF v = "running" THEN (IF f /\ Bug # "ContinuePasses" THEN "fail" ELSE "pass") ELSE v   \* end of script
FinalVerdict == FinalOf(verdict, failed)

\* what a run shows to the outside once the script has ended here
TreeOf(f) == {[p |-> p, e |-> f[p]] : p \in {q \in Universe : f[q].k # "none"}}
Project(o) ==
  [verdict |-> FinalOf(o.verdict, o.failed),
   failLine |-> IF o.failLines = <<>> THEN 0 ELSE Head(o.failLines),
   failLines |-> o.failLines,
   tree |-> TreeOf(o.s.fs),
   effects |-> o.effects,
   \* the observation a trailing probe line makes (it runs only if the script is still running)
   final |-> [run |-> o.verdict = "running", obs |-> Obs(o.s)]]

\* state after line l gave result r
Outcome(r) ==
  LET nowFailed == failed \/ ~r.ok IN
  [s |-> r.s,
   failed |-> nowFailed,
   failLines |-> IF r.ok THEN failLines ELSE Append(failLines, lineno + 1),
   effects |-> effects \o r.s.eff,
   verdict |-> CASE ~r.ok /\ ~root.coe /\ Bug # "NoFreeze" -> "fail"
                 [] r.s.skip -> IF nowFailed THEN "fail" ELSE "skip"
                 [] r.s.stop -> IF nowFailed /\ Bug # "StopForgetsFailure" THEN "fail" ELSE "pass"
                 [] OTHER -> "running"]

UsesOnlyBuiltins(h) ==
  \A k \in 1..Len(h) : LET l == LineSeq[h[k]] IN
     /\ l.cmd \notin Helpers /\ l.cmd \notin Customs
     /\ \A c \in 1..Len(l.conds) : l.conds[c].n \notin {"ctrue", "cfalse", "cerr", "cvar"}

EmitCase(h, o, l, alt) ==
  IF EmitMode = "all" \/ (EmitMode = "terminal" /\ (o.verdict # "running" \/ Len(h) >= DepthOf[root.prof]))
  THEN PrintT(<<"EMIT", ToJson([root |-> root, script |-> h, exp |-> Project(o),
                                 alt |-> l.alt, altexp |-> IF l.alt THEN <<Project(alt)>> ELSE <<>>,
                                 \* the same verdict is demanded from cmd/testscript when the script needs
                                 \* nothing the standalone command does not have
                                 cli |-> UsesOnlyBuiltins(h)])>>)
  ELSE TRUE

Init ==
  /\ root \in Roots
  /\ fs = InitFS[Profiles[root.prof].arch] /\ cd = <<>> /\ env = [v \in Vars |-> <<>>]
  /\ out = <<>> /\ err = <<>> /\ inp = <<>> /\ bg = <<>>
  /\ verdict = IF SetupFails(root) THEN "fail" ELSE "running"
  /\ failed = SetupFails(root)
  /\ lineno = 0
  /\ failLines = IF SetupFails(root) THEN <<0>> ELSE <<>>
  /\ hist = <<>> /\ effects = <<>> /\ met = <<>>
  /\ EmitCase(<<>>, [s |-> Cur, failed |-> failed, failLines |-> failLines, effects |-> <<>>, verdict |-> verdict],
              Ln("", <<>>), [s |-> Cur])

Step(i) ==
  LET l == LineSeq[i]
      r == RunLine(l, Cur, P)
      o == Outcome(r)
  IN /\ verdict = "running"
     /\ Len(hist) < DepthOf[root.prof]
     /\ \A k \in 1..Len(hist) : ~LineSeq[hist[k]].alt      \* a line with two accepted outcomes ends its script
     /\ Deterministic(l, Cur)
     /\ ~Poisoned(o.s.fs)                                  \* the tree stays inside the path universe
     /\ hist' = Append(hist, i)
     /\ lineno' = lineno + 1
     /\ met' = Append(met, r.ok)
     /\ fs' = o.s.fs /\ cd' = o.s.cd /\ env' = o.s.env /\ out' = o.s.out /\ err' = o.s.err
     /\ inp' = o.s.inp /\ bg' = o.s.bg
     /\ failed' = o.failed /\ failLines' = o.failLines /\ effects' = o.effects
     /\ verdict' = o.verdict
     /\ root' = root
     /\ EmitCase(hist', o, l, Outcome(AltResult(Cur)))

Next == \E i \in 1..Len(LineSeq) : Step(i)
Spec == Init /\ [][Next]_vars

\* ------------------------------------------------------------------------
\* the laws of the statement, checked by TLC in every reachable state

AllMet == \A k \in 1..Len(met) : met[k]
FirstUnmet == CHOOSE k \in 1..Len(met) : ~met[k] /\ \A j \in 1..(k - 1) : met[j]
LastCmd == IF hist = <<>> THEN "" ELSE LineSeq[hist[Len(hist)]].cmd

\* passed exactly when every executed line met its demand (and the script did not skip);
\* failed runs name the first offending line; skip / stop end the script
VerdictLaw ==
  SetupFails(root) \/
  /\ Len(met) = Len(hist) /\ lineno = Len(hist)
  /\ (FinalVerdict = "pass") = (AllMet /\ verdict # "skip")
  /\ (FinalVerdict = "fail") = ~AllMet
  /\ ~AllMet => failLines # <<>> /\ Head(failLines) = FirstUnmet
  /\ verdict = "skip" => AllMet /\ LastCmd = "skip"
  /\ verdict = "pass" => LastCmd = "stop"
  /\ failed = ~AllMet

\* without ContinueOnError nothing runs after the first failure;
\* with it every line runs (the script only ends by stop / skip / its last line)
FreezeLaw ==
  SetupFails(root) \/
  IF root.coe
  THEN /\ \A k \in 1..(Len(failLines) - 1) : failLines[k] < failLines[k + 1]
       /\ Len(failLines) = Cardinality({k \in 1..Len(met) : ~met[k]})
       /\ (verdict # "running" => LastCmd \in {"stop", "skip"})
  ELSE /\ Len(failLines) <= 1
       /\ failLines # <<>> => verdict = "fail" /\ Head(failLines) = Len(hist)

\* [!] is rejected, without any effect, by every command that does not document it
NoNegLaw ==
  verdict # "running" \/
  \A i \in 1..Len(LineSeq) : LET l == LineSeq[i] IN
    (l.tok = "ok" /\ l.neg /\ l.cmd \in NoNeg) =>
      LET r == Dispatch(l.cmd, Cur, TRUE, l.args, P) IN ~r.ok /\ r.s = Cur

\* [!] inverts the demand of the commands that document it (file, foreground, no -count)
Invertible(l) ==
  /\ l.tok = "ok" /\ l.cmd \in NegOK
  /\ \A k \in 1..Len(l.args) : l.args[k].k # "cnt" /\ ~(l.args[k].k = "lit" /\ l.args[k].s \in BgSpecs)
  /\ l.cmd = "exists" => Len(l.args) = 1
NegLaw ==
  verdict # "running" \/
  \A i \in 1..Len(LineSeq) : LET l == LineSeq[i] IN
    Invertible(l) =>
      LET r == Dispatch(l.cmd, Cur, l.neg, l.args, P)
          q == Dispatch(l.cmd, Cur, ~l.neg, l.args, P)
      IN (r.why # "error" /\ q.why # "error") => r.ok # q.ok

\* a line behind a condition that does not hold is not executed at all, whatever follows the bracket
Holds(c) == (CondEval(c.n, P) = "true") # c.neg
Guarded(l) == \E k \in 1..Len(l.conds) :
                 /\ CondEval(l.conds[k].n, P) # "error" /\ ~Holds(l.conds[k])
                 /\ \A j \in 1..(k - 1) : CondEval(l.conds[j].n, P) # "error" /\ Holds(l.conds[j])
CondLaw ==
  verdict # "running" \/
  \A i \in 1..Len(LineSeq) : LET l == LineSeq[i] IN
    (l.tok = "ok" /\ Guarded(l) /\ ~(l.cmd = "" /\ ~l.neg)) =>
      LET r == RunLine(l, Cur, P) IN r.ok /\ r.s = Cur

\* blank and comment lines only count for the line number
PadLaw ==
  verdict # "running" \/
  \A i \in 1..Len(LineSeq) : IsPad(LineSeq[i]) => LET r == RunLine(LineSeq[i], Cur, P) IN r.ok /\ r.s = Cur

TreeLaw == WellFormed(fs)

TypeOK ==
  /\ verdict \in {"running", "pass", "fail", "skip"}
  /\ failed \in BOOLEAN
  /\ cd \in Seq(Names) \cup {<<>>}
  /\ \A k \in 1..Len(bg) : bg[k].st \in {"run", "sig", "reaped", "gone"} /\ bg[k].kind \in {"echo", "fail", "block"}
=============================================================================
