------------------------------ MODULE TsBytes -------------------------------
(***************************************************************************)
(* Byte strings (sequences of naturals) and the text functions the         *)
(* testscript commands apply to file contents and output buffers:          *)
(*   Count    number of leftmost non-overlapping occurrences of a literal  *)
(*            pattern (= len(regexp.FindAllString) for a pattern without   *)
(*            metacharacters; the driver re-computes every count it meets  *)
(*            with Go's regexp and reports a difference as a spec problem) *)
(*   Unquote  txtar.Unquote                                                *)
(*   Unix2Dos the unix2dos command (bufio.ScanLines + CRLF)                *)
(*   Expand   os.Expand for the "$NAME" form (cmpenv)                      *)
(***************************************************************************)
EXTENDS Integers, Sequences

LF == 10
CR == 13
GT == 62
DOLLAR == 36

IsPrefixAt(pat, text, i) ==
  /\ i + Len(pat) - 1 <= Len(text)
  /\ SubSeq(text, i, i + Len(pat) - 1) = pat

RECURSIVE CountFrom(_, _, _)
CountFrom(pat, text, i) ==
  IF i + Len(pat) - 1 > Len(text) THEN 0
  ELSE IF IsPrefixAt(pat, text, i) THEN 1 + CountFrom(pat, text, i + Len(pat))
  ELSE CountFrom(pat, text, i + 1)

\* pat is never empty
Count(pat, text) == CountFrom(pat, text, 1)

\* ---- txtar.Unquote: every line starts with '>', the text ends with LF ----
UnquoteOK(d) == d = <<>> \/ (d[1] = GT /\ d[Len(d)] = LF)

RECURSIVE UnqBody(_, _)
UnqBody(d, i) ==
  IF i > Len(d) THEN <<>>
  ELSE IF d[i] = LF /\ i < Len(d) /\ d[i + 1] = GT THEN <<LF>> \o UnqBody(d, i + 2)
  ELSE <<d[i]>> \o UnqBody(d, i + 1)

\* defined when UnquoteOK(d): "\n>" -> "\n" everywhere, then the leading '>' dropped
Unquote(d) == IF d = <<>> THEN <<>> ELSE UnqBody(d, 2)

\* ---- unix2dos: lines as bufio.ScanLines sees them (LF ends a line, one CR before
\* it is dropped, a last line without LF counts), each written back with CR LF ----
DropCR(a) == IF a # <<>> /\ a[Len(a)] = CR THEN SubSeq(a, 1, Len(a) - 1) ELSE a

RECURSIVE U2D(_, _, _)
U2D(d, i, acc) ==
  IF i > Len(d) THEN (IF acc = <<>> THEN <<>> ELSE DropCR(acc) \o <<CR, LF>>)
  ELSE IF d[i] = LF THEN DropCR(acc) \o <<CR, LF>> \o U2D(d, i + 1, <<>>)
  ELSE U2D(d, i + 1, Append(acc, d[i]))

Unix2Dos(d) == U2D(d, 1, <<>>)

\* ---- os.Expand, "$NAME" form: NAME is the longest run of [A-Za-z0-9_]; a '$'
\* not followed by such a byte stays. ----
IsNameByte(c) == c \in 48..57 \/ c \in 65..90 \/ c \in 97..122 \/ c = 95

RECURSIVE NameEnd(_, _)
NameEnd(d, i) == IF i <= Len(d) /\ IsNameByte(d[i]) THEN NameEnd(d, i + 1) ELSE i

\* tab: set of <<name bytes, value bytes>>; a name that is not in it expands to nothing
ValueOf(nb, tab) == IF \E t \in tab : t[1] = nb THEN (CHOOSE t \in tab : t[1] = nb)[2] ELSE <<>>

RECURSIVE ExpandFrom(_, _, _)
ExpandFrom(d, i, tab) ==
  IF i > Len(d) THEN <<>>
  ELSE IF d[i] = DOLLAR /\ NameEnd(d, i + 1) > i + 1
       THEN ValueOf(SubSeq(d, i + 1, NameEnd(d, i + 1) - 1), tab) \o ExpandFrom(d, NameEnd(d, i + 1), tab)
       ELSE <<d[i]>> \o ExpandFrom(d, i + 1, tab)

Expand(d, tab) == ExpandFrom(d, 1, tab)

\* concatenation of a sequence of byte strings
RECURSIVE Concat(_)
Concat(ss) == IF ss = <<>> THEN <<>> ELSE Head(ss) \o Concat(Tail(ss))
=============================================================================
