-------------------------------- MODULE TsFS --------------------------------
(***************************************************************************)
(* The file tree a script works on, as the commands see it through the     *)
(* operating system (Linux semantics; the process has no permission        *)
(* restrictions beyond what is stated).                                    *)
(*                                                                         *)
(* A path is a sequence of names below $WORK (<<>> is $WORK itself).  The  *)
(* tree is a function over a fixed finite universe of paths; an operation  *)
(* that would create something outside the universe marks the tree as      *)
(* outside the model (Poisoned) and the generator does not take that       *)
(* transition: it is never silently dropped.                               *)
(*   entry: [k |-> "none" | "file" | "dir" | "link",                       *)
(*           c |-> content bytes (file),  w |-> some write bit set,        *)
(*           t |-> link target, a path relative to the link's directory]   *)
(***************************************************************************)
EXTENDS Integers, Sequences, FiniteSets, TLC

CONSTANT Names        \* the names that may occur in the tree

Universe == {<<n>> : n \in Names} \cup {<<n, m>> : n \in Names, m \in Names}
OOB == <<"#outside">>                  \* marker entry, never a real path
Dom == Universe \cup {OOB}

None == [k |-> "none", c |-> <<>>, w |-> FALSE, t |-> <<>>]
File(c, w) == [k |-> "file", c |-> c, w |-> w, t |-> <<>>]
Dir(w) == [k |-> "dir", c |-> <<>>, w |-> w, t |-> <<>>]
Link(t) == [k |-> "link", c |-> <<>>, w |-> FALSE, t |-> t]

Front(p) == SubSeq(p, 1, Len(p) - 1)
Last(p) == p[Len(p)]
IsPrefix(p, q) == Len(p) <= Len(q) /\ SubSeq(q, 1, Len(p)) = p

Kind(fs, p) == IF p = <<>> THEN "dir" ELSE IF p \in Universe THEN fs[p].k ELSE "none"
Children(fs, p) == {q \in Universe : Len(q) = Len(p) + 1 /\ IsPrefix(p, q) /\ fs[q].k # "none"}

\* every entry hangs below a directory
WellFormed(fs) == \A p \in Universe : fs[p].k # "none" => Kind(fs, Front(p)) = "dir"

\* ---- lexical cleaning (filepath.Join / Clean): "." dropped, ".." pops ----
RECURSIVE CleanAcc(_, _)
CleanAcc(acc, rest) ==
  IF rest = <<>> THEN acc
  ELSE IF Head(rest) = "." THEN CleanAcc(acc, Tail(rest))
  ELSE IF Head(rest) = ".."
       THEN IF acc = <<>> THEN Assert(FALSE, <<"path leaves $WORK", rest>>)
            ELSE CleanAcc(Front(acc), Tail(rest))
  ELSE CleanAcc(Append(acc, Head(rest)), Tail(rest))
Clean(p) == CleanAcc(<<>>, p)

\* ---- path resolution by the kernel.  Intermediate links are always followed,
\* the last one when follow is set.  Result:
\*   "found"  p = where the object is
\*   "free"   every directory on the way exists, the last name does not: p = where
\*            it would be created (through a dangling link: the link's target)
\*   "err"    e = "noent" / "notdir" / "loop": a missing or non-directory component
\*            on the way, or a link loop
RECURSIVE Walk(_, _, _, _, _)
Walk(fs, cur, rest, follow, fuel) ==
  IF rest = <<>> THEN [st |-> "found", p |-> cur, e |-> ""]
  ELSE LET q == Append(cur, Head(rest))
           t == Tail(rest)
           k == Kind(fs, q)
       IN CASE k = "none" -> IF t = <<>> THEN [st |-> "free", p |-> q, e |-> ""]
                                         ELSE [st |-> "err", p |-> q, e |-> "noent"]
            [] k = "file" -> IF t = <<>> THEN [st |-> "found", p |-> q, e |-> ""]
                                         ELSE [st |-> "err", p |-> q, e |-> "notdir"]
            [] k = "dir"  -> Walk(fs, q, t, follow, fuel)
            [] k = "link" -> IF t = <<>> /\ ~follow THEN [st |-> "found", p |-> q, e |-> ""]
                             ELSE IF fuel = 0 THEN [st |-> "err", p |-> q, e |-> "loop"]
                             ELSE Walk(fs, cur, fs[q].t \o t, follow, fuel - 1)

Stat(fs, p) == Walk(fs, <<>>, p, TRUE, 4)
Lstat(fs, p) == Walk(fs, <<>>, p, FALSE, 4)

Exists(fs, p) == Stat(fs, p).st = "found"
IsDir(fs, p) == LET r == Stat(fs, p) IN r.st = "found" /\ Kind(fs, r.p) = "dir"
IsFile(fs, p) == LET r == Stat(fs, p) IN r.st = "found" /\ Kind(fs, r.p) = "file"
\* only asked for existing objects
Writable(fs, p) == LET r == Stat(fs, p) IN IF r.p = <<>> THEN TRUE ELSE fs[r.p].w

Poison(fs) == [fs EXCEPT ![OOB] = Dir(TRUE)]
Poisoned(fs) == fs[OOB].k # "none"

\* results of operations that change the tree: [ok, fs]
FsOk(fs) == [ok |-> TRUE, fs |-> fs]
FsErr(fs) == [ok |-> FALSE, fs |-> fs]

\* os.ReadFile
Read(fs, p) == IF IsFile(fs, p) THEN [ok |-> TRUE, c |-> fs[Stat(fs, p).p].c] ELSE [ok |-> FALSE, c |-> <<>>]

\* os.WriteFile(p, data, mode): open(O_WRONLY|O_CREATE|O_TRUNC).  w is the write
\* bit of the requested mode, used only when the file is created.
Write(fs, p, data, w) ==
  LET r == Stat(fs, p) IN
  CASE r.st = "found" /\ Kind(fs, r.p) = "file" -> FsOk([fs EXCEPT ![r.p].c = data])
    [] r.st = "free" -> IF r.p \in Universe THEN FsOk([fs EXCEPT ![r.p] = File(data, w)]) ELSE FsOk(Poison(fs))
    [] OTHER -> FsErr(fs)

\* os.Chmod (follows links); only the write bits are tracked
Chmod(fs, p, w) ==
  LET r == Stat(fs, p) IN
  IF r.st = "found" /\ r.p # <<>> THEN FsOk([fs EXCEPT ![r.p].w = w]) ELSE FsErr(fs)

\* os.MkdirAll: every prefix in turn.  A name that exists but is not (a link to) a
\* directory is an error; so is a dangling link.
RECURSIVE MkdirFrom(_, _, _)
MkdirFrom(fs, p, n) ==
  IF n > Len(p) THEN FsOk(fs)
  ELSE LET pre == SubSeq(p, 1, n)
           r == Stat(fs, pre)
           l == Lstat(fs, pre)
       IN CASE r.st = "found" /\ Kind(fs, r.p) = "dir" -> MkdirFrom(fs, p, n + 1)
            [] r.st = "free" /\ l.st = "free" -> IF r.p \in Universe THEN MkdirFrom([fs EXCEPT ![r.p] = Dir(TRUE)], p, n + 1)
                                                  ELSE FsOk(Poison(fs))
            [] OTHER -> FsErr(fs)
MkdirAll(fs, p) == MkdirFrom(fs, p, 1)

\* os.RemoveAll: no error for a missing path; a link is removed, not followed
RemoveAll(fs, p) ==
  LET r == Lstat(fs, p) IN
  CASE r.st = "found" /\ r.p # <<>> -> FsOk([q \in Dom |-> IF IsPrefix(r.p, q) THEN None ELSE fs[q]])
    [] r.st = "free" \/ r.e = "noent" -> FsOk(fs)
    [] OTHER -> Assert(FALSE, <<"rm through a non-directory or a link loop is not modelled", p>>)

\* os.Symlink(target, p)
Symlink(fs, t, p) ==
  LET r == Lstat(fs, p) IN
  IF r.st = "free" THEN (IF r.p \in Universe THEN FsOk([fs EXCEPT ![r.p] = Link(t)]) ELSE FsOk(Poison(fs)))
  ELSE FsErr(fs)

\* os.Rename (rename(2), and Go's refusal to rename onto an existing directory):
\* neither last component is followed
Rename(fs, old, new) ==
  LET ro == Lstat(fs, old)
      rn == Lstat(fs, new)
  IN
  IF ro.st # "found" \/ ro.p = <<>> \/ rn.st = "err" \/ rn.p = <<>> THEN FsErr(fs)
  ELSE LET src == ro.p
           dst == rn.p
           sk == Kind(fs, src)
           dk == Kind(fs, dst)
       IN
       IF dk = "dir" THEN FsErr(fs)                   \* os.Rename: EEXIST for an existing directory, even onto itself
       ELSE IF src = dst THEN FsOk(fs)
       ELSE IF sk = "dir" /\ IsPrefix(src, dst) THEN FsErr(fs)                 \* EINVAL
       ELSE IF sk = "dir" /\ dk \in {"file", "link"} THEN FsErr(fs)             \* ENOTDIR
       ELSE IF \E q \in Universe : IsPrefix(src, q) /\ fs[q].k # "none"
                                   /\ (dst \o SubSeq(q, Len(src) + 1, Len(q))) \notin Universe THEN FsOk(Poison(fs))
       ELSE FsOk([q \in Dom |->
                    IF IsPrefix(dst, q)
                    THEN LET s == src \o SubSeq(q, Len(dst) + 1, Len(q)) IN
                         IF s \in Universe THEN fs[s] ELSE None
                    ELSE IF IsPrefix(src, q) THEN None
                    ELSE fs[q]])
=============================================================================
