\* sanity: run with MC_Env.tla; TLC must report InvLatestWins / InvLastQuoted violated (lookup returns the first assignment)
SPECIFICATION Spec
CONSTANTS
  Depth = 2
  Emit = FALSE
  Bug = "FirstWins"
INVARIANTS InvLatestWins InvChild InvFold InvAppendOnly InvNoReexpand InvRegexp InvLastQuoted
CHECK_DEADLOCK FALSE
