\* sanity: run with MC_Tokenize.tla; TLC must report InvComment / InvSegments violated (shell-like rule: # only starts a comment at the start of a word)
SPECIFICATION Spec
CONSTANTS
  Alphabet = {97, 32, 39, 36, 123, 125, 35, 86}
  N = 3
  Emit = FALSE
  Bug = "HashOnlyAtWordStart"
INVARIANTS InvMachine InvBalance InvComment InvSplit InvSegments InvNoResplit InvNoDollarNoEnv
CHECK_DEADLOCK FALSE
