\* sanity: run with MC_Laws.tla; TLC must report InvValueLaw violated ($V left as text)
SPECIFICATION Spec
CONSTANTS
  WAlphabet = {97, 32, 39, 36, 35, 86, 9, 92, 46, 123, 125}
  NV = 3
  NW = 3
  MaxWords = 3
  Emit = FALSE
  Bug = "NoExpand"
INVARIANTS InvQuoteLaw InvPlainLaw InvValueLaw InvRegexpLaw InvAssignLaw InvJudged
CHECK_DEADLOCK FALSE
