\* stand-alone run: every script of <= 3 env lines over the 20-line vocabulary
SPECIFICATION Spec
CONSTANTS
  Depth = 3
  Emit = FALSE
  Bug = "none"
INVARIANTS InvLatestWins InvChild InvFold InvAppendOnly InvNoReexpand InvRegexp InvLastQuoted
CHECK_DEADLOCK FALSE
