------------------------------- MODULE MC_Env -------------------------------
(***************************************************************************)
(* Generator 3: sequences of env assignments preceding a line.  The state  *)
(* is the script so far (hist, a sequence of "env ..." lines drawn from    *)
(* Vocabulary) and the environment list it produces; one action = one more *)
(* env line, tokenised and expanded by the specification's own Parse with  *)
(* the environment that holds before it.  Values are the statement's       *)
(* troublemakers (empty, blank inside, quote, "$W", "#", TAB inside, "=" inside);      *)
(* unquoted forms copy another variable, extend the variable's own old     *)
(* value, or assign two variables in one line.                             *)
(*                                                                         *)
(* TLC checks in every state: latest assignment wins (list and lookup      *)
(* agree), the child environment is a function of the names, $V / $W give  *)
(* exactly the stored value (no re-expansion of "$W"), the incremental     *)
(* environment equals the fold over the script.  Every state is emitted as *)
(* a script (own work directory: variables start unset) with the predicted *)
(* argument vectors of a few probe lines, the predicted Getenv values and  *)
(* the predicted environment of an executed program.                       *)
(***************************************************************************)
EXTENDS Tokenize, TLC, Json

CONSTANTS Depth, Emit

VARIABLES hist, env
vars == <<hist, env>>

NameV == <<86>>
NameW == <<86, 82>>      \* "VR": V is a proper prefix of the second name, which ends in R (as the @R suffix does)
Values == { <<>>, <<120>>, <<112, 32, 113>>, <<39>>, <<36, 86, 82>>, <<35>>, <<97, 9, 98>>, <<97, 61, 98, 61>> }   \* the last one: "a=b=" (only the first = separates name and value)
Other(n) == IF n = NameV THEN NameW ELSE NameV

Prefix(n) == EnvWord \o <<SP>> \o n \o <<EQ>>
Vocabulary ==
     { Prefix(n) \o QuoteWord(v) : n \in {NameV, NameW}, v \in Values }                  \* env V='p q'
  \cup { Prefix(n) \o <<DOLLAR>> \o Other(n) : n \in {NameV, NameW} }                    \* env V=$W
  \cup { Prefix(n) \o <<DOLLAR, LBRACE>> \o n \o <<RBRACE, 120>> : n \in {NameV, NameW} } \* env V=${V}x
  \cup { Prefix(n) \o <<121, SP>> \o Other(n) \o <<EQ, DOLLAR>> \o n : n \in {NameV, NameW} }  \* env V=y W=$V (W gets the OLD V)

ProbeLines == << <<DOLLAR, 86>>,                                         \* $V
                 <<DOLLAR, LBRACE, 86, 82, RBRACE>>,                         \* ${VR}
                 <<DOLLAR, 86, DOLLAR, 86, 82>>,                             \* $V$VR
                 <<QUOTE, DOLLAR, 86, QUOTE>>,                           \* '$V'
                 <<120, DOLLAR, LBRACE, 86, RBRACE, 121, SP, DOLLAR, 86, 82>> >>   \* x${V}y $VR

Probe(line, e) == [line |-> line, ok |-> Parse(line, e).ok, args |-> Parse(line, e).args,
                   jd |-> Judged(line), rx |-> FALSE, val |-> <<>>]
RxProbe(n, e) == LET l == <<DOLLAR, LBRACE>> \o n \o <<AT, BIGR, RBRACE>> IN
                 [line |-> l, ok |-> TRUE, args |-> Parse(l, e).args, jd |-> FALSE, rx |-> TRUE, val |-> Lookup(e, n)]

Group(h, e) ==
  [t |-> "group", fresh |-> TRUE, child |-> TRUE, pre |-> h,
   vars |-> << [name |-> NameV, value |-> Lookup(e, NameV), set |-> IsSet(e, NameV)],
               [name |-> NameW, value |-> Lookup(e, NameW), set |-> IsSet(e, NameW)] >>,
   probes |-> [k \in 1..Len(ProbeLines) |-> Probe(ProbeLines[k], e)] \o << RxProbe(NameV, e), RxProbe(NameW, e) >>]

EmitGroup(h, e) == IF Emit THEN PrintT(<<"EMIT", ToJson(Group(h, e))>>) ELSE TRUE

Init == hist = <<>> /\ env = BaseEnv /\ EmitGroup(<<>>, BaseEnv)
Next == /\ Len(hist) < Depth
        /\ \E l \in Vocabulary :
              /\ hist' = Append(hist, l)
              /\ env' = ExecLine(env, l)
              /\ EmitGroup(hist', env')
Spec == Init /\ [][Next]_vars

InvLatestWins == LatestWins(env)
InvChild      == ChildFunctional(env)
InvFold       == env = ExecLines(BaseEnv, hist, 1)
\* an env line never loses or reorders earlier assignments
InvAppendOnly == Len(env) >= Len(BaseEnv) + Len(hist) /\ SubSeq(env, 1, Len(BaseEnv)) = BaseEnv
\* the stored value comes back as exactly one word, whatever it contains
InvNoReexpand == /\ Parse(<<DOLLAR, 86>>, env).args = << Lookup(env, NameV) >>
                 /\ Parse(<<DOLLAR, LBRACE, 86, 82, RBRACE>>, env).args = << Lookup(env, NameW) >>
InvRegexp     == RegexpLiteral(Parse(<<DOLLAR, LBRACE, 86, AT, BIGR, RBRACE>>, env).args[1]) = [ok |-> TRUE, v |-> Lookup(env, NameV)]
\* the last line's effect: a quoted value is stored byte for byte
InvLastQuoted ==
  hist # <<>> =>
    \A n \in {NameV, NameW} : \A v \in Values :
       hist[Len(hist)] = Prefix(n) \o QuoteWord(v) => Lookup(env, n) = v
=============================================================================
