\* stand-alone run: word lists <= 3 bytes / 3 words, values <= 4 bytes over {a SP ' $ # V TAB \ . { }}
SPECIFICATION Spec
CONSTANTS
  WAlphabet = {97, 32, 39, 36, 35, 86, 9, 92, 46, 123, 125}
  NV = 4
  NW = 3
  MaxWords = 3
  Emit = FALSE
  Bug = "none"
INVARIANTS InvQuoteLaw InvPlainLaw InvValueLaw InvRegexpLaw InvAssignLaw InvJudged
CHECK_DEADLOCK FALSE
