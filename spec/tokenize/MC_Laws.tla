------------------------------ MODULE MC_Laws -------------------------------
(***************************************************************************)
(* Generator 2: the quoting laws of the statement, universally quantified  *)
(* over words and values.  The reachable states are all lists of at most   *)
(* MaxWords words over WAlphabet with at most NW bytes in total, and all   *)
(* single words (= variable values) of at most NV bytes (a tree: a byte is *)
(* appended to the last word, or a new empty word is started).             *)
(*                                                                         *)
(* In every state TLC checks                                               *)
(*   law 1  the list survives quoting: Parse(Join(QuoteWord(w))) = ws      *)
(*          (and plain words need no quotes),                              *)
(*   law 2  the single word, stored in V, comes back from $V / ${V} as     *)
(*          exactly one word, glued to its neighbours, never re-split or   *)
(*          re-expanded,                                                   *)
(*   law 3  ${V@R} is a literal pattern denoting exactly the value,        *)
(*   and that assigning it with the env command stores it unchanged,       *)
(* and emits a group of script lines with the predicted argument vectors   *)
(* for replay into the real engine.                                        *)
(***************************************************************************)
EXTENDS Tokenize, TLC, Json

CONSTANTS WAlphabet, NV, NW, MaxWords, Emit
ASSUME NV >= NW

VARIABLE ws
vars == <<ws>>

RECURSIVE Total(_, _)
Total(l, k) == IF k > Len(l) THEN 0 ELSE Len(l[k]) + Total(l, k + 1)

\* the environment the laws are checked in: W is set, so that a value "$W"
\* would show re-expansion; V holds an older value that must lose
Env0 == BaseEnv \o << <<<<87>>, <<122, 122>>>>, <<<<86>>, <<111, 108, 100>>>> >>

ProbeLines == << DollarV,                                               \* $V
                 BraceV,                                                \* ${V}
                 <<97>> \o BraceV \o <<98, SP>> \o DollarV,             \* a${V}b $V
                 <<QUOTE>> \o DollarV \o <<QUOTE>> \o DollarV,          \* '$V'$V   (quoted text is not expanded)
                 DollarV \o <<HASH>> \o DollarV,                        \* $V#$V    (comment after the word)
                 <<DOLLAR, 86, AT, BIGR>> >>                            \* $V@R     (no braces: value then "@R")

Probe(line, env) == [line |-> line, ok |-> Parse(line, env).ok, args |-> Parse(line, env).args,
                     jd |-> Judged(line), rx |-> FALSE, val |-> <<>>]

Group(l) ==
  IF Len(l) = 1 THEN
     LET v == l[1]
         pre == AssignLine(VName, v)
         env == ExecLine(Env0, pre) IN
     [t |-> "group", fresh |-> FALSE, child |-> FALSE, pre |-> <<pre>>,
      vars |-> << [name |-> VName, value |-> Lookup(env, VName), set |-> TRUE] >>,
      probes |-> [k \in 1..Len(ProbeLines) |-> Probe(ProbeLines[k], env)]
                 \o << [line |-> BraceVR, ok |-> TRUE, args |-> Parse(BraceVR, env).args, jd |-> FALSE, rx |-> TRUE, val |-> v],
                       Probe(JoinQuoted(l, 1), env) >>]
  ELSE
     [t |-> "group", fresh |-> FALSE, child |-> FALSE, pre |-> <<>>, vars |-> <<>>,
      probes |-> << Probe(JoinQuoted(l, 1), Env0) >>
                 \o (IF l # <<>> /\ \A k \in 1..Len(l) : PlainWord(l[k]) THEN << Probe(JoinPlain(l, 1), Env0) >> ELSE <<>>)]

EmitGroup(l) == IF Emit THEN PrintT(<<"EMIT", ToJson(Group(l))>>) ELSE TRUE

\* the script lines that establish Env0 (every script that holds groups starts with them)
Prologue == << AssignLine(<<87>>, <<122, 122>>), AssignLine(VName, <<111, 108, 100>>) >>
ASSUME ExecLines(BaseEnv, Prologue, 1) = Env0
EmitPrologue == IF Emit THEN PrintT(<<"EMIT", ToJson([t |-> "prologue", pre |-> Prologue])>>) ELSE TRUE

Init == ws = <<>> /\ EmitPrologue /\ EmitGroup(<<>>)
Next == \/ /\ Len(ws) < MaxWords
           /\ Total(ws, 1) <= NW
           /\ ws' = Append(ws, <<>>)
           /\ EmitGroup(ws')
        \/ /\ Len(ws) > 0
           /\ (IF Len(ws) = 1 THEN Len(ws[1]) < NV ELSE Total(ws, 1) < NW)     \* NV >= NW
           /\ \E b \in WAlphabet :
                 /\ ws' = [ws EXCEPT ![Len(ws)] = Append(@, b)]
                 /\ EmitGroup(ws')
Spec == Init /\ [][Next]_vars

InvQuoteLaw  == QuoteLaw(ws, Env0)
InvPlainLaw  == PlainLaw(ws, Env0)
InvValueLaw  == Len(ws) = 1 => ValueLaw(ws[1], Env0)
InvRegexpLaw == Len(ws) = 1 => RegexpLaw(ws[1], Env0)
InvAssignLaw == Len(ws) = 1 => AssignLaw(ws[1], Env0)
\* every line the laws are about is one the statement fixes completely
InvJudged    == Judged(JoinQuoted(ws, 1)) /\ Judged(DollarV) /\ Judged(BraceV)
=============================================================================
