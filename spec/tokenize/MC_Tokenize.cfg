\* stand-alone run (the check generates its own cfg per tier): all lines <= 5 over {a SP ' $ { } # V}
SPECIFICATION Spec
CONSTANTS
  Alphabet = {97, 32, 39, 36, 123, 125, 35, 86}
  N = 5
  Emit = FALSE
  Bug = "none"
INVARIANTS InvMachine InvBalance InvComment InvSplit InvSegments InvNoResplit InvNoDollarNoEnv
CHECK_DEADLOCK FALSE
