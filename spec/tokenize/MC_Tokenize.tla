---------------------------- MODULE MC_Tokenize -----------------------------
(***************************************************************************)
(* Generator 1: TLC walks the tokeniser machine one byte at a time.  The   *)
(* reachable states are exactly the lines of length <= N over Alphabet     *)
(* (a tree: s is the line read so far, m the machine state after it).      *)
(* In every state TLC checks the laws of the statement on the machine      *)
(* (comment, balance, split, machine = fold) under every environment of    *)
(* Histories, and emits the predicted result of the line under each        *)
(* environment for replay into the real testscript engine.                 *)
(***************************************************************************)
EXTENDS Tokenize, TLC, Json

CONSTANTS Alphabet, N, Emit

VARIABLES s, m
vars == <<s, m>>

\* names: V a W Va aV; values chosen from the statement's list (empty, plain,
\* blank inside, quote, "$W", "#", TAB inside, unbalanced "${", "}")
Assignments == <<
  <<>>,
  << <<<<86>>, <<>>>>, <<<<97>>, <<65>>>> >>,
  << <<<<86>>, <<120>>>>, <<<<86>>, <<112, 32, 113>>>>, <<<<86, 97>>, <<66>>>> >>,
  << <<<<86>>, <<39>>>>, <<<<97>>, <<36, 86>>>> >>,
  << <<<<86>>, <<36, 87>>>>, <<<<87>>, <<122, 122>>>> >>,
  << <<<<86>>, <<35>>>>, <<<<97, 86>>, <<97, 9, 98>>>> >>,
  << <<<<86>>, <<39, 32, 36, 123>>>>, <<<<97>>, <<125>>>>, <<<<86>>, <<39, 39, 32, 36, 123>>>> >>
>>
NH == Len(Assignments)
Histories == [h \in 1..NH |-> BaseEnv \o Assignments[h]]
\* the script lines that establish history h
PreLines(h) == [k \in 1..Len(Assignments[h]) |-> AssignLine(Assignments[h][k][1], Assignments[h][k][2])]

\* the env lines, run through the specification's own env command, give the history
ASSUME \A h \in 1..NH : ExecLines(BaseEnv, PreLines(h), 1) = Histories[h]
ASSUME \A h \in 1..NH : LatestWins(Histories[h]) /\ ChildFunctional(Histories[h])

HistCase(h) == [t |-> "hist", h |-> h, pre |-> PreLines(h),
                vars |-> [k \in 1..Len(Assignments[h]) |->
                            [name |-> Assignments[h][k][1], value |-> Lookup(Histories[h], Assignments[h][k][1]), set |-> TRUE]]]

LineCase(x, mx) ==
  LET dep == UsesEnvM(mx) IN
  [t |-> "line", line |-> x, dep |-> dep, jd |-> JudgedM(mx),
   res |-> IF dep THEN [h \in 1..NH |-> Result(mx, Histories[h])] ELSE <<Result(mx, Histories[1])>>]

EmitLine(x, mx) == IF Emit THEN PrintT(<<"EMIT", ToJson(LineCase(x, mx))>>) ELSE TRUE
EmitHists == IF Emit THEN \A h \in 1..NH : PrintT(<<"EMIT", ToJson(HistCase(h))>>) ELSE TRUE

Init == s = <<>> /\ m = M0 /\ EmitHists /\ EmitLine(<<>>, M0)
Next == /\ Len(s) < N
        /\ \E b \in Alphabet :
              /\ s' = Append(s, b)
              /\ m' = Step(m, b)
              /\ EmitLine(s', m')
Spec == Init /\ [][Next]_vars

\* ---- invariants: the laws of the statement hold on the machine ----
InvMachine == m = Run(s)
InvBalance == BalanceLaw(s)
InvComment == CommentLaw(s)
InvSplit   == SplitLaw(s)
InvSegments == SegmentsWellFormed(s)
\* the number of words never depends on the values (no re-splitting), and quoted
\* text never depends on the environment at all
InvNoResplit == \A h \in 1..NH : Len(Result(m, Histories[h]).args) = Len(Result(m, Histories[1]).args)
InvNoDollarNoEnv == ~UsesEnvM(m) => \A h \in 1..NH : Result(m, Histories[h]) = Result(m, Histories[1])
=============================================================================
