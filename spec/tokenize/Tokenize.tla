------------------------------ MODULE Tokenize ------------------------------
(***************************************************************************)
(* Reference semantics of testscript's line tokeniser (property C02):      *)
(* word splitting, single-quote quoting, end-of-line comments, variable    *)
(* expansion ($NAME, ${NAME}, ${NAME@R}) and the env command.              *)
(*                                                                         *)
(* Bytes are naturals, byte strings are sequences of naturals.             *)
(*                                                                         *)
(*  - the tokeniser is a byte-at-a-time machine (M0, Step, Finish) shaped  *)
(*    like TestScript.parse: args / current word / current chunk / quoted  *)
(*    / started, with one extra control state (pendq) that replaces the    *)
(*    one byte look-ahead the code uses for '' inside quotes;              *)
(*  - a word is kept as a list of segments (quoted text, unquoted text);   *)
(*    unquoted segments are expanded by Expand (the os.Expand rules with   *)
(*    testscript's mapping: latest assignment wins, NAME@R = QuoteMeta);   *)
(*  - the environment is the ordered list of assignments (the code's       *)
(*    ts.env); Lookup is "latest wins" (the code's ts.envMap); ChildEnv is *)
(*    what an executed program must see;                                   *)
(*  - the laws of the statement (quoting, no re-splitting, no re-expansion,*)
(*    comment, @R) are stated at the end; MC_Tokenize / MC_Laws / MC_Env   *)
(*    check them with TLC on every state of three generators and emit the  *)
(*    predictions that are replayed into the real package.                 *)
(*                                                                         *)
(* Bug is a named deviation switch ("none" = the reference semantics);     *)
(* Bug_*.cfg show that the invariants reject each deviation.               *)
(***************************************************************************)
EXTENDS Naturals, Sequences, FiniteSets

CONSTANT Bug

TAB == 9
CR == 13
SP == 32
HASH == 35
DOLLAR == 36
QUOTE == 39
EQ == 61
AT == 64
BIGR == 82
BACKSLASH == 92
LBRACE == 123
RBRACE == 125

\* The statement names space and tab.  The code also separates words at CR
\* (scripts with CRLF line ends); a line with an unquoted CR is therefore
\* predicted but not judged (see Judged).
IsSep(b) == b \in {SP, TAB, CR}

----------------------------------------------------------------------------
\* Environment: sequence of <<name, value>> in assignment order.

IsSet(env, n) == \E i \in 1..Len(env) : env[i][1] = n

RECURSIVE LookupFrom(_, _, _)
LookupFrom(env, n, i) ==
  IF i = 0 THEN <<>>
  ELSE IF env[i][1] = n THEN env[i][2] ELSE LookupFrom(env, n, i - 1)

RECURSIVE LookupFirst(_, _, _)
LookupFirst(env, n, i) ==
  IF i > Len(env) THEN <<>>
  ELSE IF env[i][1] = n THEN env[i][2] ELSE LookupFirst(env, n, i + 1)

\* latest assignment wins; an unset name expands to nothing
Lookup(env, n) == IF Bug = "FirstWins" THEN LookupFirst(env, n, 1) ELSE LookupFrom(env, n, Len(env))

Names(env) == {env[i][1] : i \in 1..Len(env)}
\* what an executed program sees (besides PWD, which is the current directory)
ChildEnv(env) == {<<n, Lookup(env, n)>> : n \in Names(env)}

\* variables every script starts with that a line of punctuation can name (doc.go)
BaseEnv == << <<<<47>>, <<47>>>>, <<<<58>>, <<58>>>>, <<<<DOLLAR>>, <<DOLLAR>>>> >>

----------------------------------------------------------------------------
\* regexp.QuoteMeta and its inverse on literal patterns

Meta == {92, 46, 43, 42, 63, 40, 41, 124, 91, 93, 123, 125, 94, 36}   \* \.+*?()|[]{}^$

RECURSIVE QuoteMeta(_)
QuoteMeta(s) ==
  IF s = <<>> THEN <<>>
  ELSE (IF Head(s) \in Meta /\ ~(Bug = "MetaNoDollar" /\ Head(s) = DOLLAR)
        THEN <<BACKSLASH, Head(s)>> ELSE <<Head(s)>>) \o QuoteMeta(Tail(s))

\* The string a pattern matches when the pattern is a literal: every
\* metacharacter escaped by one backslash, everything else standing for itself.
RECURSIVE RegexpLiteral(_)
RegexpLiteral(r) ==
  IF r = <<>> THEN [ok |-> TRUE, v |-> <<>>]
  ELSE IF Head(r) = BACKSLASH THEN
         IF Len(r) >= 2 /\ r[2] \in Meta
         THEN LET t == RegexpLiteral(SubSeq(r, 3, Len(r))) IN [ok |-> t.ok, v |-> <<r[2]>> \o t.v]
         ELSE [ok |-> FALSE, v |-> <<>>]
  ELSE IF Head(r) \in Meta THEN [ok |-> FALSE, v |-> <<>>]
  ELSE LET t == RegexpLiteral(Tail(r)) IN [ok |-> t.ok, v |-> <<Head(r)>> \o t.v]

----------------------------------------------------------------------------
\* Expansion of one unquoted chunk (os.Expand with testscript's mapping).

IsAlnum(b) == b = 95 \/ b \in 48..57 \/ b \in 65..90 \/ b \in 97..122
IsIdStart(b) == b = 95 \/ b \in 65..90 \/ b \in 97..122
IsSpecialVar(b) == b \in {42, 35, 36, 64, 33, 63, 45} \cup (48..57)     \* * # $ @ ! ? - 0..9

RECURSIVE AlnumRun(_, _)
AlnumRun(s, i) == IF i <= Len(s) /\ IsAlnum(s[i]) THEN AlnumRun(s, i + 1) ELSE i - 1   \* last index of the run starting at 1

RECURSIVE IndexFrom(_, _, _)
IndexFrom(s, b, i) == IF i > Len(s) THEN 0 ELSE IF s[i] = b THEN i ELSE IndexFrom(s, b, i + 1)

\* the name after a '$' (s = the non-empty text following it) and how many bytes it uses
ShellName(s) ==
  IF s[1] = LBRACE THEN
     IF Len(s) > 2 /\ IsSpecialVar(s[2]) /\ s[3] = RBRACE THEN [name |-> <<s[2]>>, w |-> 3]
     ELSE LET c == IndexFrom(s, RBRACE, 2) IN
          IF c = 0 THEN [name |-> <<>>, w |-> 1]            \* "${" without "}": the two bytes are eaten
          ELSE IF c = 2 THEN [name |-> <<>>, w |-> 2]       \* "${}" is eaten
          ELSE [name |-> SubSeq(s, 2, c - 1), w |-> c]
  ELSE IF IsSpecialVar(s[1]) THEN [name |-> <<s[1]>>, w |-> 1]
  ELSE LET k == AlnumRun(s, 1) IN [name |-> SubSeq(s, 1, k), w |-> k]

HasRSuffix(n) == Len(n) >= 2 /\ n[Len(n) - 1] = AT /\ n[Len(n)] = BIGR

\* value substituted for a name
Mapping(n, env) ==
  IF HasRSuffix(n) THEN QuoteMeta(Lookup(env, SubSeq(n, 1, Len(n) - 2))) ELSE Lookup(env, n)

RECURSIVE ExpandFrom(_, _, _)
ExpandFrom(s, j, env) ==
  IF j > Len(s) THEN <<>>
  ELSE IF s[j] = DOLLAR /\ j < Len(s) THEN
         LET sn == ShellName(SubSeq(s, j + 1, Len(s))) IN
           (IF sn.name = <<>> THEN (IF sn.w > 0 THEN <<>> ELSE <<DOLLAR>>) ELSE Mapping(sn.name, env))
             \o ExpandFrom(s, j + sn.w + 1, env)
  ELSE <<s[j]>> \o ExpandFrom(s, j + 1, env)

\* The substituted value is appended as is: it is neither split nor expanded again.
Expand(s, env) == ExpandFrom(s, 1, env)

----------------------------------------------------------------------------
\* The tokeniser machine.
\*   args     finished words, each a sequence of segments [q, t]
\*   word     segments of the word in progress
\*   chunk    bytes of the segment in progress (quoted text if quoted, else unquoted)
\*   started  a word is in progress (the code's start >= 0 or arg # "")
\*   quoted   inside single quotes
\*   pendq    inside quotes, the previous byte was a quote: the next byte decides
\*            between '' (a literal quote) and the end of the quoted text
\*   done     an unquoted # was seen: the rest of the line is a comment
\*   sawcr    an unquoted CR was met (word separator the statement does not name)

Seg(q, t) == [q |-> q, t |-> t]
PushSeg(w, q, t) == IF t = <<>> THEN w ELSE Append(w, Seg(q, t))

M0 == [args |-> <<>>, word |-> <<>>, chunk |-> <<>>, started |-> FALSE, quoted |-> FALSE,
       pendq |-> FALSE, done |-> FALSE, sawcr |-> FALSE]

EndWord(m) ==
  IF m.started
  THEN [m EXCEPT !.args = Append(@, PushSeg(m.word, FALSE, m.chunk)), !.word = <<>>, !.chunk = <<>>, !.started = FALSE]
  ELSE m

\* one byte outside quotes
StepUnquoted(m, b) ==
  IF b = HASH /\ ~(Bug = "HashOnlyAtWordStart" /\ m.started) THEN [EndWord(m) EXCEPT !.done = TRUE]     \* Hash
  ELSE IF IsSep(b) THEN [EndWord(m) EXCEPT !.sawcr = @ \/ b = CR]                                      \* Blank
  ELSE IF b = QUOTE THEN [m EXCEPT !.word = PushSeg(@, FALSE, m.chunk), !.chunk = <<>>,                 \* Quote (open)
                                   !.quoted = TRUE, !.started = TRUE]
  ELSE [m EXCEPT !.chunk = Append(@, b), !.started = TRUE]                                             \* Other

CloseQuote(m) == [m EXCEPT !.word = PushSeg(@, TRUE, m.chunk), !.chunk = <<>>, !.quoted = FALSE, !.pendq = FALSE]

Step(m, b) ==
  IF m.done THEN m
  ELSE IF m.pendq THEN
         IF b = QUOTE
         THEN [m EXCEPT !.pendq = FALSE,                                                               \* QuoteQuote
                        !.chunk = IF Bug = "NoQuoteQuote" THEN @ ELSE Append(@, QUOTE)]
         ELSE StepUnquoted(CloseQuote(m), b)                                                           \* Quote (close) + byte
  ELSE IF m.quoted THEN
         IF b = QUOTE THEN [m EXCEPT !.pendq = TRUE]
         ELSE [m EXCEPT !.chunk = Append(@, b)]                                                        \* Other (quoted)
  ELSE StepUnquoted(m, b)

\* EOL: ok = FALSE is "unterminated quoted argument"
Finish(m) ==
  IF m.done THEN [ok |-> TRUE, words |-> m.args]
  ELSE IF m.quoted /\ ~m.pendq THEN [ok |-> FALSE, words |-> <<>>]
  ELSE [ok |-> TRUE, words |-> EndWord(IF m.pendq THEN CloseQuote(m) ELSE m).args]

RECURSIVE RunFrom(_, _, _)
RunFrom(m, line, i) == IF i > Len(line) THEN m ELSE RunFrom(Step(m, line[i]), line, i + 1)
Run(line) == RunFrom(M0, line, 1)

RECURSIVE Resolve(_, _, _)
Resolve(w, k, env) ==
  IF k > Len(w) THEN <<>>
  ELSE (IF w[k].q THEN w[k].t
        ELSE IF Bug = "NoExpand" THEN w[k].t ELSE Expand(w[k].t, env)) \o Resolve(w, k + 1, env)

\* result of a machine state / of a line under an environment
Result(m, env) ==
  LET f == Finish(m) IN [ok |-> f.ok, args |-> [k \in 1..Len(f.words) |-> Resolve(f.words[k], 1, env)]]
Parse(line, env) == Result(Run(line), env)

----------------------------------------------------------------------------
\* The env command: every argument NAME=VALUE appends an assignment (split at
\* the first '='); an argument without '=' only displays.
EnvArg(env, a) ==
  LET i == IndexFrom(a, EQ, 1) IN
  IF i = 0 THEN env ELSE Append(env, <<SubSeq(a, 1, i - 1), SubSeq(a, i + 1, Len(a))>>)

RECURSIVE EnvArgs(_, _, _)
EnvArgs(env, args, k) == IF k > Len(args) THEN env ELSE EnvArgs(EnvArg(env, args[k]), args, k + 1)

EnvWord == <<101, 110, 118>>    \* "env"

\* effect of one script line "env ..." (the line is expanded with the environment
\* that holds BEFORE it: assignments preceding the line); other lines change nothing
ExecLine(env, line) ==
  LET p == Parse(line, env) IN
  IF p.ok /\ Len(p.args) >= 1 /\ p.args[1] = EnvWord THEN EnvArgs(env, p.args, 2) ELSE env

RECURSIVE ExecLines(_, _, _)
ExecLines(env, lines, k) == IF k > Len(lines) THEN env ELSE ExecLines(ExecLine(env, lines[k]), lines, k + 1)

----------------------------------------------------------------------------
\* Quoting a word so that it survives the tokeniser unchanged.
RECURSIVE DoubleQuotes(_)
DoubleQuotes(w) ==
  IF w = <<>> THEN <<>>
  ELSE (IF Head(w) = QUOTE THEN <<QUOTE, QUOTE>> ELSE <<Head(w)>>) \o DoubleQuotes(Tail(w))
QuoteWord(w) == <<QUOTE>> \o DoubleQuotes(w) \o <<QUOTE>>

RECURSIVE JoinQuoted(_, _)
JoinQuoted(ws, k) ==
  IF k > Len(ws) THEN <<>>
  ELSE (IF k > 1 THEN <<SP>> ELSE <<>>) \o QuoteWord(ws[k]) \o JoinQuoted(ws, k + 1)

\* a word that needs no quoting: non-empty, none of blank quote $ #
PlainWord(w) == w # <<>> /\ \A k \in 1..Len(w) : ~IsSep(w[k]) /\ w[k] \notin {QUOTE, DOLLAR, HASH}
RECURSIVE JoinPlain(_, _)
JoinPlain(ws, k) ==
  IF k > Len(ws) THEN <<>>
  ELSE (IF k > 1 THEN <<SP>> ELSE <<>>) \o ws[k] \o JoinPlain(ws, k + 1)

----------------------------------------------------------------------------
\* Which lines the statement fixes completely.  "$NAME and ${NAME} are
\* replaced": NAME is an identifier; everything else os.Expand does with a
\* '$' (lone $, $1, $*, "${", "${}", names with punctuation) is predicted
\* from the observed behaviour but not judged.  ${NAME@R} is judged by what
\* it denotes (RegexpLiteral), not by its spelling, so lines containing it are
\* not compared byte for byte either.
IsIdentTail(n) == \A k \in 1..Len(n) : IsAlnum(n[k])
IsIdent(n) == n # <<>> /\ IsIdStart(n[1]) /\ IsIdentTail(n)

RECURSIVE StdDollars(_, _, _)
\* every '$' of the unquoted chunk t (from j on) starts $IDENT or ${IDENT}; withR admits ${IDENT@R}
StdDollars(t, j, withR) ==
  IF j > Len(t) THEN TRUE
  ELSE IF t[j] # DOLLAR THEN StdDollars(t, j + 1, withR)
  ELSE IF j = Len(t) THEN FALSE
  ELSE IF IsIdStart(t[j + 1]) THEN StdDollars(t, j + 1, withR)
  ELSE IF t[j + 1] = LBRACE THEN
         LET c == IndexFrom(t, RBRACE, j + 2) IN
         IF c = 0 THEN FALSE
         ELSE LET n == SubSeq(t, j + 2, c - 1) IN
              (IsIdent(n) \/ (withR /\ HasRSuffix(n) /\ IsIdent(SubSeq(n, 1, Len(n) - 2))))
              /\ StdDollars(t, c + 1, withR)
  ELSE FALSE

WordsStd(words, withR) ==
  \A k \in 1..Len(words) : \A s \in 1..Len(words[k]) : words[k][s].q \/ StdDollars(words[k][s].t, 1, withR)

\* the line's result is fixed byte for byte by the statement
JudgedM(m) == ~m.sawcr /\ (Finish(m).ok => WordsStd(Finish(m).words, FALSE))
Judged(line) == JudgedM(Run(line))
\* the line uses unquoted '$' at all
UsesEnvM(m) == \E k \in 1..Len(Finish(m).words) : \E s \in 1..Len(Finish(m).words[k]) :
                  ~Finish(m).words[k][s].q /\ IndexFrom(Finish(m).words[k][s].t, DOLLAR, 1) # 0

----------------------------------------------------------------------------
\* Declarative reading of the statement, independent of the machine:
\* a byte is quoted iff an odd number of quote characters precedes it ('' inside
\* quotes closes and reopens, which leaves the quoting of every other byte as it is).
QuotesBefore(s, k) == Cardinality({i \in 1..(k - 1) : s[i] = QUOTE})
Unquoted(s, k) == QuotesBefore(s, k) % 2 = 0
CommentStarts(s) == {k \in 1..Len(s) : s[k] = HASH /\ Unquoted(s, k)}
Min(S) == CHOOSE x \in S : \A y \in S : x <= y
\* the part of the line before the comment
Active(s) == IF CommentStarts(s) = {} THEN s ELSE SubSeq(s, 1, Min(CommentStarts(s)) - 1)
Balanced(s) == QuotesBefore(Active(s), Len(Active(s)) + 1) % 2 = 0
Splits(s) == {k \in 1..Len(s) : IsSep(s[k]) /\ Unquoted(s, k)}

\* The three structural laws are stated on the word structure (segments), so
\* they hold under every environment at once: Result() resolves word by word.
Structure(s) == Finish(Run(s))
\* (comment law) an unquoted # ends the line: nothing after it matters
CommentLaw(s) == Structure(s) = Structure(Active(s))
\* (termination law) tokenisation fails exactly when a quote is left open
BalanceLaw(s) == Structure(s).ok = Balanced(s)
\* (split law) words are split at unquoted blanks and nowhere else
SplitLaw(s) ==
  LET a == Active(s) IN
  Balanced(s) =>
    IF Splits(a) = {} THEN Len(Structure(a).words) = (IF a = <<>> THEN 0 ELSE 1)
    ELSE LET k == Min(Splits(a)) IN
         Structure(a).words = Structure(SubSeq(a, 1, k - 1)).words \o Structure(SubSeq(a, k + 1, Len(a))).words
\* (quote law on structure) quoted text is taken literally: a quoted segment holds
\* exactly the bytes between the quotes with '' read as ', and an unquoted segment
\* never contains a quote, a separator or a #
SegmentsWellFormed(s) ==
  LET f == Structure(s) IN
  \A k \in 1..Len(f.words) : \A j \in 1..Len(f.words[k]) :
     LET g == f.words[k][j] IN
     g.t # <<>> /\ (~g.q => \A x \in 1..Len(g.t) : ~IsSep(g.t[x]) /\ g.t[x] \notin {QUOTE, HASH})

\* (law 1) any list of words survives quoting, whatever the environment holds
QuoteLaw(ws, env) ==
  LET p == Parse(JoinQuoted(ws, 1), env) IN p.ok /\ p.args = ws
\* ... and words without blank, quote, $ and # need no quotes
PlainLaw(ws, env) ==
  (\A k \in 1..Len(ws) : PlainWord(ws[k])) => Parse(JoinPlain(ws, 1), env).args = ws

VName == <<86>>      \* "V"
DollarV == <<DOLLAR, 86>>
BraceV == <<DOLLAR, LBRACE, 86, RBRACE>>
BraceVR == <<DOLLAR, LBRACE, 86, AT, BIGR, RBRACE>>
\* (law 2) whatever bytes a value holds (blanks, quotes, $, #), $V and ${V} are
\* exactly one word equal to the value: no re-splitting, no re-expansion, and the
\* value joins the text around it
ValueLaw(v, env0) ==
  LET env == Append(env0, <<VName, v>>) IN
  /\ Parse(DollarV, env).args = <<v>>
  /\ Parse(BraceV, env).args = <<v>>
  /\ Parse(<<97>> \o BraceV \o <<98, SP>> \o DollarV, env).args = << <<97>> \o v \o <<98>>, v >>
\* (law 3) ${V@R} is one word, a literal pattern that denotes exactly the value
RegexpLaw(v, env0) ==
  LET env == Append(env0, <<VName, v>>)
      p == Parse(BraceVR, env) IN
  /\ p.ok /\ Len(p.args) = 1
  /\ RegexpLiteral(p.args[1]) = [ok |-> TRUE, v |-> v]
\* (env law) assigning through the env command with a quoted value stores the value
AssignLine(n, v) == EnvWord \o <<SP>> \o QuoteWord(n \o <<EQ>> \o v)
AssignLaw(v, env0) == Lookup(ExecLine(env0, AssignLine(VName, v)), VName) = v

\* (latest wins) the environment list and the lookup agree: for every name the
\* value looked up is the one of its last assignment, and the child sees one
\* value per name
LatestWins(env) ==
  \A n \in Names(env) :
    \E i \in 1..Len(env) : /\ env[i] = <<n, Lookup(env, n)>>
                           /\ \A j \in (i + 1)..Len(env) : env[j][1] # n
ChildFunctional(env) ==
  /\ Cardinality(ChildEnv(env)) = Cardinality(Names(env))
  /\ \A p \in ChildEnv(env) : p[2] = Lookup(env, p[1])
=============================================================================
