SPECIFICATION Spec
CONSTANTS
  K = 16
  Bug = "none"
INVARIANTS RecJudged RecModel RecBalance RecCount
CHECK_DEADLOCK FALSE
