--------------------------- MODULE Trace_Tokenize ---------------------------
(***************************************************************************)
(* Validation of records produced by the real testscript engine on seeded  *)
(* random scripts (binding B1).  One record per probe line:                *)
(*   pre   the "env ..." lines that precede it in its script (bytes)       *)
(*   line  the text after "probe <n> " (arbitrary bytes except LF)         *)
(*   ok    the line was tokenised (FALSE: the script line failed)          *)
(*   args  the argument vector the probe command received                  *)
(* TLC runs the specification's env command over pre, tokenises and        *)
(* expands the line and compares.  Lines the statement fixes completely    *)
(* (Judged) that differ are BAD (a violation of the property by the real   *)
(* code); other differences are DRIFT.  Records are independent: the index *)
(* runs in K lanes.                                                        *)
(***************************************************************************)
EXTENDS Tokenize, TLC, Json

CONSTANTS K

Trace == ndJsonDeserialize("trace.ndjson")

VARIABLE i
vars == <<i>>

Init == i \in 1..K
Next == i + K <= Len(Trace) /\ i' = i + K
Spec == Init /\ [][Next]_vars

Live == i <= Len(Trace)
EnvOf(r) == ExecLines(BaseEnv, r.pre, 1)
Pred(r) == Parse(r.line, EnvOf(r))
Same(r) == LET p == Pred(r) IN p.ok = r.ok /\ (p.ok => p.args = r.args)

\* PrintT is TRUE: the invariants always hold, the BAD / DRIFT lines are the verdict
RecJudged == ((Live /\ Judged(Trace[i].line) /\ Pred(Trace[i]).ok) => Same(Trace[i])) \/ PrintT(<<"BAD", "RecJudged", i>>)
RecModel  == ((Live /\ ~(Judged(Trace[i].line) /\ Pred(Trace[i]).ok)) => Same(Trace[i])) \/ PrintT(<<"DRIFT", "RecModel", i>>)
\* how many records were judged (counted by the check)
RecCount == ~(Live /\ Judged(Trace[i].line) /\ Pred(Trace[i]).ok) \/ PrintT(<<"JUDGED", i>>)
\* what the real engine returned obeys the laws that need no prediction:
\* a failed line has an open quote; a tokenised one has none
RecBalance == (Live => (Trace[i].ok = Balanced(Trace[i].line))) \/ PrintT(<<"DRIFT", "RecBalance", i>>)
=============================================================================
