----------------------------- MODULE MC_Txtar ------------------------------
(***************************************************************************)
(* Enumerator: the reachable states are exactly the byte strings of length *)
(* <= N over Alphabet (a tree: every state has one predecessor).  TLC      *)
(* checks the C03/C14 laws on the reference semantics in every state and   *)
(* emits, per state, the test case "input, expected archive, expected      *)
(* NeedsQuote / Quote" that the Go driver replays into the real package.   *)
(***************************************************************************)
EXTENDS Txtar, TLC, Json

CONSTANTS Alphabet, N, Emit

VARIABLE s
vars == <<s>>

Case(x) == [input |-> x,
            comment |-> Parse(x).comment,
            files |-> Parse(x).files,
            needsQuote |-> NeedsQuote(x),
            quotable |-> Quotable(x),
            quoted |-> IF Quotable(x) THEN Quote(x) ELSE <<>>]

EmitCase(x) == IF Emit THEN PrintT(<<"EMIT", ToJson(Case(x))>>) ELSE TRUE

Init == s = <<>> /\ EmitCase(<<>>)
Next == /\ Len(s) < N
        /\ \E b \in Alphabet : s' = Append(s, b) /\ EmitCase(s')
Spec == Init /\ [][Next]_vars

\* ---- invariants = the laws on the reference semantics ----
InvReparseStable == ReparseStable(s)
InvParseWellFormed == ParseWellFormed(s)
InvNeedsQuoteExact == NeedsQuote(s) = NeedsQuoteByParser(s)
InvQuoteLaws == QuoteLaws(s)
\* x/tools agreement is checked on the Go side; here: CRLF marker == LF marker
CRtoNothing(x) == SelectSeq(x, LAMBDA b : b # CR)
=============================================================================
