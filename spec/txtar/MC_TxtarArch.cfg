SPECIFICATION Spec
CONSTANTS
  MaxFiles = 2
  Emit = TRUE
INVARIANTS InvWellFormed InvRoundTrip
CHECK_DEADLOCK FALSE
