--------------------------- MODULE MC_TxtarArch ----------------------------
(***************************************************************************)
(* Enumerator of a family of well-formed archives (C03, second half):      *)
(* states = archives built from a comment and up to MaxFiles entries whose *)
(* names and bodies come from sets chosen to sit next to the marker        *)
(* grammar (look-alikes that are not markers, CR LF bodies, inner blanks). *)
(* TLC checks WellFormed and Parse(Format(a)) = a on the reference         *)
(* semantics and emits each archive for replay into the real package.      *)
(***************************************************************************)
EXTENDS Txtar, TLC, Json

CONSTANTS MaxFiles, Emit

Comments == { <<>>, <<99, 10>>, <<45,45,32,45,45,10>>, <<13,10>>, <<45,45,32,32,45,45,10>>, <<32,45,45,32,120,32,45,45,10>> }
Names    == { <<120>>, <<97,47,98>>, <<120,32,121>>, <<45>>, <<45,45>>, <<120,13,121>>, <<97,37,115,37>>, <<97,92,98>> }   \* the last two: "a%s%" (means something to a formatter), "a\b" (a separator elsewhere)
Datas    == { <<>>, <<120,10>>, <<10>>, <<45,45,32,120,10>>, <<32,45,45,32,120,32,45,45,10>>,
              <<45,45,120,32,45,45,10>>, <<62,45,45,32,120,32,45,45,10>>, <<120,13,10>>,
              <<45,45,32,45,45,10>>, <<45,45,32,32,45,45,10>>, <<45,45,32,120,45,45,10>>, <<120,10,10,121,10>> }

VARIABLE a
vars == <<a>>

Case(x) == [input |-> Format(x), comment |-> x.comment, files |-> x.files,
            needsQuote |-> FALSE, quotable |-> FALSE, quoted |-> <<>>]
EmitCase(x) == IF Emit THEN PrintT(<<"EMIT", ToJson(Case(x))>>) ELSE TRUE

Init == \E c \in Comments : a = Arch(c, <<>>) /\ EmitCase(a)
Next == /\ Len(a.files) < MaxFiles
        /\ \E n \in Names, d \in Datas :
              /\ a' = [a EXCEPT !.files = Append(@, File(n, d))]
              /\ EmitCase(a')
Spec == Init /\ [][Next]_vars

InvWellFormed == WellFormed(a)
InvRoundTrip  == Parse(Format(a)) = a
=============================================================================
