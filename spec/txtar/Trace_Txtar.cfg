SPECIFICATION Spec
CONSTANTS K = 16
INVARIANTS RecNoPanic RecParse RecNeedsQ RecStable RecWellFormed
CHECK_DEADLOCK FALSE
