---------------------------- MODULE Trace_Txtar ----------------------------
(***************************************************************************)
(* Validation of records produced by the real txtar package on seeded      *)
(* random inputs (binding B1): every record carries the input and what the *)
(* real Parse / NeedsQuote returned; TLC evaluates the reference semantics *)
(* on the input and compares.  Records are independent, so the index runs  *)
(* in K lanes and TLC's workers validate in parallel.                      *)
(***************************************************************************)
EXTENDS Txtar, TLC, Json

CONSTANTS K

Trace == ndJsonDeserialize("trace.ndjson")

VARIABLE i
vars == <<i>>

Init == i \in 1..K
Next == i + K <= Len(Trace) /\ i' = i + K
Spec == Init /\ [][Next]_vars

Judged(r) == r.cr \in {"none", "crlf"}    \* inputs on which the statement fixes the result

\* A failing record is named on stdout ("BAD", invariant, index) so that the check
\* can report every offending input of a run made with -continue.
Bad(name) == PrintT(<<"BAD", name, i>>)
RecNoPanic   == (i <= Len(Trace) => ~Trace[i].panic) \/ Bad("RecNoPanic")
RecParse     == ((i <= Len(Trace) /\ Judged(Trace[i]) /\ ~Trace[i].panic) => Parse(Trace[i].input) = Trace[i].arch) \/ Bad("RecParse")
RecNeedsQ    == ((i <= Len(Trace) /\ Judged(Trace[i]) /\ ~Trace[i].panic) => NeedsQuote(Trace[i].input) = Trace[i].needsQuote) \/ Bad("RecNeedsQ")
\* what the real code returned is a fixpoint of the reference semantics and is well formed
RecStable    == ((i <= Len(Trace) /\ ~Trace[i].panic) => Parse(Format(Trace[i].arch)) = Trace[i].arch) \/ Bad("RecStable")
RecWellFormed == ((i <= Len(Trace) /\ ~Trace[i].panic) => WellFormed(Trace[i].arch)) \/ Bad("RecWellFormed")
=============================================================================
