------------------------------- MODULE Txtar -------------------------------
(***************************************************************************)
(* Reference semantics of the txtar archive format (properties C03, C14).  *)
(*                                                                         *)
(* Bytes are naturals, byte strings are sequences of naturals.  This is    *)
(* the golang.org/x/tools/txtar definition extended by the one rule the    *)
(* property statement adds: a marker line that ends in CR LF (or in CR at   *)
(* the very end of the input, where "a final newline is considered to be   *)
(* present anyway") is recognised exactly like one ending in LF.           *)
(*                                                                         *)
(* The module is purely definitional; MC_Txtar.tla turns it into a state   *)
(* machine whose reachable states are all inputs up to a length bound, and *)
(* Trace_Txtar.tla evaluates it on records produced by the real code.      *)
(***************************************************************************)
EXTENDS Naturals, Sequences

LF == 10
CR == 13
SP == 32
DASH == 45
GT == 62

\* strings.TrimSpace on the ASCII subset (the drivers never feed the multi-byte
\* Unicode spaces U+0085, U+00A0, ... so the byte-level definition is exact)
IsSpace(b) == b \in {32, 13, 9, 11, 12, 10}

RECURSIVE TrimLeft(_), TrimRight(_)
TrimLeft(s)  == IF s # <<>> /\ IsSpace(Head(s)) THEN TrimLeft(Tail(s)) ELSE s
TrimRight(s) == IF s # <<>> /\ IsSpace(s[Len(s)]) THEN TrimRight(SubSeq(s, 1, Len(s)-1)) ELSE s
TrimSpace(s) == TrimRight(TrimLeft(s))

\* Lines(s): split after every LF; a last line without LF is kept as is.
RECURSIVE SplitLines(_, _, _)
SplitLines(s, i, start) ==
  IF i > Len(s) THEN (IF start > Len(s) THEN <<>> ELSE <<SubSeq(s, start, Len(s))>>)
  ELSE IF s[i] = LF THEN <<SubSeq(s, start, i)>> \o SplitLines(s, i+1, i+1)
  ELSE SplitLines(s, i+1, start)
Lines(s) == SplitLines(s, 1, 1)

\* Strip the end-of-line of one line: LF, CR LF, or a CR that ends the input
\* (only the last line of an input can lack its LF).
StripEOL(l) ==
  LET a == IF l # <<>> /\ l[Len(l)] = LF THEN SubSeq(l, 1, Len(l)-1) ELSE l
  IN  IF a # <<>> /\ a[Len(a)] = CR THEN SubSeq(a, 1, Len(a)-1) ELSE a

MarkerPrefix == <<DASH, DASH, SP>>
MarkerSuffix == <<SP, DASH, DASH>>

\* Name of the file a marker line introduces, <<>> if the line is no marker.
MarkerName(l) ==
  LET b == StripEOL(l) IN
  IF Len(b) >= 6 /\ SubSeq(b, 1, 3) = MarkerPrefix /\ SubSeq(b, Len(b)-2, Len(b)) = MarkerSuffix
  THEN TrimSpace(SubSeq(b, 4, Len(b)-3)) ELSE <<>>

IsMarker(l) == MarkerName(l) # <<>>

FixNL(d) == IF d = <<>> \/ d[Len(d)] = LF THEN d ELSE Append(d, LF)

Arch(c, fs) == [comment |-> c, files |-> fs]
File(n, d)  == [name |-> n, data |-> d]

\* Parse as a fold over the lines.  cur = the section being collected.
RECURSIVE Fold(_, _, _, _, _)
Fold(ls, i, comment, files, cur) ==
  IF i > Len(ls) THEN
     Arch(IF cur.inFile THEN comment ELSE FixNL(cur.data),
          IF cur.inFile THEN Append(files, File(cur.name, FixNL(cur.data))) ELSE files)
  ELSE LET n == MarkerName(ls[i]) IN
    IF n # <<>> THEN Fold(ls, i+1,
                          IF cur.inFile THEN comment ELSE cur.data,
                          IF cur.inFile THEN Append(files, File(cur.name, cur.data)) ELSE files,
                          [inFile |-> TRUE, name |-> n, data |-> <<>>])
    ELSE Fold(ls, i+1, comment, files, [cur EXCEPT !.data = @ \o ls[i]])

Parse(s) == Fold(Lines(s), 1, <<>>, <<>>, [inFile |-> FALSE, name |-> <<>>, data |-> <<>>])

RECURSIVE FormatFiles(_, _)
FormatFiles(fs, i) ==
  IF i > Len(fs) THEN <<>>
  ELSE MarkerPrefix \o fs[i].name \o MarkerSuffix \o <<LF>> \o FixNL(fs[i].data) \o FormatFiles(fs, i+1)
Format(a) == FixNL(a.comment) \o FormatFiles(a.files, 1)

----------------------------------------------------------------------------
\* Well-formedness as the property statement defines it.
NoMarkerLine(d) == \A k \in 1..Len(Lines(d)) : ~IsMarker(Lines(d)[k])
ContainsMarkerLine(d) == ~NoMarkerLine(d)
NLTerminated(d) == d = <<>> \/ d[Len(d)] = LF
GoodName(n) == n # <<>> /\ TrimSpace(n) = n /\ \A k \in 1..Len(n) : n[k] # LF
WellFormed(a) ==
  /\ NLTerminated(a.comment) /\ NoMarkerLine(a.comment)
  /\ \A k \in 1..Len(a.files) :
        GoodName(a.files[k].name) /\ NLTerminated(a.files[k].data) /\ NoMarkerLine(a.files[k].data)

\* C03 laws, stated on the reference semantics (TLC checks them for every input).
ReparseStable(s) == Parse(Format(Parse(s))) = Parse(s)
ParseWellFormed(s) == WellFormed(Parse(s))
RoundTrip(a) == WellFormed(a) => Parse(Format(a)) = a

----------------------------------------------------------------------------
\* C14.  NeedsQuote is *defined from the parser*: storing d as the body of a
\* one-file archive changes how the archive parses.
OneFile(d) == Arch(<<>>, <<File(<<120>>, d)>>)
NeedsQuoteByParser(d) == Parse(Format(OneFile(d))) # OneFile(FixNL(d))
\* ... which the statement says is the same as "contains a marker line":
NeedsQuote(d) == ContainsMarkerLine(d)

\* Quote: every line gets a leading '>'.  Defined for data that is empty or
\* newline terminated (UTF-8 validity is trivially true over the ASCII alphabets).
Quotable(d) == NLTerminated(d)
RECURSIVE QuoteLines(_, _)
QuoteLines(ls, i) == IF i > Len(ls) THEN <<>> ELSE <<GT>> \o ls[i] \o QuoteLines(ls, i+1)
Quote(d) == QuoteLines(Lines(d), 1)
\* Unquote of a quoted text: drop the first byte of every line.
RECURSIVE UnquoteLines(_, _)
UnquoteLines(ls, i) == IF i > Len(ls) THEN <<>> ELSE Tail(ls[i]) \o UnquoteLines(ls, i+1)
IsQuoted(q) == q = <<>> \/ (q[Len(q)] = LF /\ \A k \in 1..Len(Lines(q)) : Lines(q)[k][1] = GT)
Unquote(q) == UnquoteLines(Lines(q), 1)

QuoteLaws(d) == Quotable(d) =>
    /\ IsQuoted(Quote(d))
    /\ Unquote(Quote(d)) = d
    /\ ~NeedsQuote(Quote(d))
    /\ ~NeedsQuoteByParser(Quote(d))
=============================================================================
