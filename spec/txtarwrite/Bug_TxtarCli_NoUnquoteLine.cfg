SPECIFICATION Spec
CONSTANTS
  MaxFiles = 2
  NC = 12
  Emit = FALSE
  CliBug = "NoUnquoteLine"
INVARIANTS InvRoundTrip InvUniverse
CHECK_DEADLOCK FALSE
