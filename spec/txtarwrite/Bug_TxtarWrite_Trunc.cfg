SPECIFICATION Spec
CONSTANTS
  Segs = {"a", "b", ".", "..", ""}
  MaxSegs = 4
  MaxEntries = 2
  Emit = FALSE
  Bug = "Trunc"
VIEW View
INVARIANTS InvContained InvNoOverwrite InvMustError InvHolds InvCall InvReplay
PROPERTIES StepProp
CHECK_DEADLOCK FALSE
