SPECIFICATION Spec
CONSTANTS
  MaxFiles = 2
  NC = 12
  Emit = TRUE
  CliBug = "none"
INVARIANTS InvRoundTrip InvUniverse
CHECK_DEADLOCK FALSE
