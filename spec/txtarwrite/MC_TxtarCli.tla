----------------------------- MODULE MC_TxtarCli ----------------------------
(***************************************************************************)
(* Enumerator of directory trees for the txtar-c / txtar-x round trip.     *)
(* A state is a tree (files appended in directory-walk order from the path *)
(* universe PathU, contents from the first NC elements of ContentU: the    *)
(* C14 domain of marker look-alikes) and the two txtar-c flags.  TLC       *)
(* checks the round-trip laws of TxtarCli in every state and emits, per    *)
(* state, the tree, the archive text txtar-c is predicted to print and the *)
(* files txtar-x is predicted to create; the Go driver runs the two real   *)
(* commands on the materialised tree.                                      *)
(***************************************************************************)
EXTENDS TxtarCli, Json

CONSTANTS MaxFiles, NC, Emit

\* walk order = byte order of the names inside each directory, depth first
PathU == <<
  << <<46, 46, 99>> >>,                          \* 1  ..c
  << <<46, 100>>, <<97>> >>,                     \* 2  .d/a
  << <<46, 104>> >>,                             \* 3  .h
  << <<97>> >>,                                  \* 4  a
  << <<98, 32, 99>> >>,                          \* 5  b c
  << <<100>>, <<46, 104>> >>,                    \* 6  d/.h
  << <<100>>, <<97>> >>,                         \* 7  d/a
  << <<100>>, <<101>>, <<97>> >>,                \* 8  d/e/a
  << <<122>> >>                                  \* 9  z
>>

ContentU == <<
  <<>>,                                                            \* 1  ''
  <<120, 10>>,                                                     \* 2  'x\n'
  <<120>>,                                                         \* 3  'x'
  <<45, 45, 32, 121, 32, 45, 45, 10>>,                             \* 4  '-- y --\n'
  <<120, 10, 45, 45, 32, 121, 32, 45, 45>>,                        \* 5  'x\n-- y --'
  <<32, 45, 45, 32, 121, 32, 45, 45, 10>>,                         \* 6  ' -- y --\n'
  <<62, 120, 10>>,                                                 \* 7  '>x\n'
  <<45, 45, 32, 121, 32, 45, 45, 13, 10>>,                         \* 8  '-- y --\r\n'
  <<45, 45, 32, 121, 45, 45, 10>>,                                 \* 9  '-- y--\n'
  <<10>>,                                                          \* 10  '\n'
  <<45, 45, 32, 45, 45, 10>>,                                      \* 11  '-- --\n'
  <<120, 10, 10, 45, 45, 32, 100, 47, 97, 32, 45, 45, 10, 122, 10>>  \* 12  'x\n\n-- d/a --\nz\n'
>>

VARIABLES tree, last, all, quote
vars == <<tree, last, all, quote>>

Case(t, a, q) ==
  LET ar == SaveDir(t, a, q) IN
  [files   |-> [k \in 1..Len(t) |-> [name |-> JoinSlash(t[k].path), data |-> t[k].data,
                                      eligible |-> Eligible(t[k], a, q), quoted |-> Quoted(t[k])]],
   all     |-> a, quote |-> q,
   archive |-> Format(ar),
   unquote |-> UnquoteNames(ar.comment),
   expect  |-> ExpectFiles(t, a, q)]
EmitCase(t, a, q) == IF Emit THEN PrintT(<<"EMIT", ToJson(Case(t, a, q))>>) ELSE TRUE

Init == /\ tree = <<>> /\ last = 0
        /\ all \in BOOLEAN /\ quote \in BOOLEAN
        /\ EmitCase(tree, all, quote)
Next == /\ Len(tree) < MaxFiles
        /\ \E k \in (last+1)..Len(PathU), c \in 1..NC :
             /\ tree' = Append(tree, [path |-> PathU[k], data |-> ContentU[c]])
             /\ last' = k
             /\ UNCHANGED <<all, quote>>
             /\ EmitCase(tree', all, quote)
Spec == Init /\ [][Next]_vars

InvRoundTrip == RoundTripLaws(tree, all, quote)
\* the path universe is free of duplicates and of file/directory clashes (its walk order is
\* confirmed by the driver: the real archive lists the files in the predicted order)
InvUniverse == \A j, k \in 1..Len(PathU) : j # k =>
                  /\ PathU[j] # PathU[k]
                  /\ ~W!IsPrefix(PathU[j], PathU[k])
=============================================================================
