---------------------------- MODULE MC_TxtarWrite ---------------------------
(***************************************************************************)
(* Generator and model check for txtar.Write (C15).                        *)
(*                                                                         *)
(* State: which population the sandbox started from, the file system now,  *)
(* the outcome of the last entry, and the entries written so far (hist,    *)
(* hidden by the VIEW).  One transition = Write processes one more entry   *)
(* whose name is ANY sequence of 1..MaxSegs segments over Segs.  Because   *)
(* of the VIEW every distinct (population, file system, outcome) is        *)
(* expanded once, and every transition of that graph emits one test:       *)
(* "representative archive that leads here, plus this entry; expect this   *)
(* error / these targets / this file system".                              *)
(*                                                                         *)
(* TLC checks: the statement's laws against the initial file system in     *)
(* every state (invariants), the same laws for every single transition     *)
(* (action property StepL1, evaluated also for transitions into states     *)
(* already seen), and the laws of Clean for every name.                    *)
(***************************************************************************)
EXTENDS TxtarWriteEnv, Json

CONSTANTS Segs, MaxSegs, MaxEntries, Emit

VARIABLES pop, fs, status, hist
vars == <<pop, fs, status, hist>>
View == <<pop, fs, status>>

Names == UNION {[1..k -> Segs] : k \in 1..MaxSegs}
DataOf(k) == IF k = 1 THEN "n1" ELSE IF k = 2 THEN "n2" ELSE "n3"

TargetOrNone(e) == IF MustError(e.name) THEN <<>> ELSE Target(Dir, e)

Case(p, h, r) ==
  [type    |-> "case", pop |-> p,
   entries |-> h,
   mustError |-> \E k \in 1..Len(h) : MustError(h[k].name),
   err     |-> r.err,
   targets |-> [k \in 1..Len(h) |-> TargetOrNone(h[k])],
   after   |-> After(InitFS(p), r.fs),
   removed |-> Removed(InitFS(p), r.fs)]

EmitPop(p)  == IF Emit THEN PrintT(<<"EMIT", ToJson([type |-> "pop", pop |-> p, dir |-> Dir, nodes |-> Listing(InitFS(p))])>>) ELSE TRUE
EmitCase(p, h, r) == IF Emit THEN PrintT(<<"EMIT", ToJson(Case(p, h, r))>>) ELSE TRUE

Init == /\ pop \in PopNames
        /\ fs = InitFS(pop)
        /\ status = "none"
        /\ hist = <<>>
        /\ EmitPop(pop)

Next == /\ status = "none"
        /\ Len(hist) < MaxEntries
        /\ \E n \in Names :
             LET e == [name |-> n, data |-> DataOf(Len(hist) + 1)]
                 r == WriteEntry(fs, Dir, e) IN
             /\ fs' = r.fs
             /\ status' = r.err
             /\ hist' = Append(hist, e)
             /\ pop' = pop
             /\ EmitCase(pop, hist', r)

Spec == Init /\ [][Next]_vars

----------------------------------------------------------------------------
\* the statement's laws, relative to the file system the sandbox started with
InvContained   == Contained(Dir, InitFS(pop), fs)
InvNoOverwrite == NoOverwrite(InitFS(pop), fs)
InvMustError   == (\E k \in 1..Len(hist) : MustError(hist[k].name)) => status # "none"
InvHolds       == status = "none" => \A k \in 1..Len(hist) : Holds(Dir, fs, hist[k])
InvCall        == L1Call(Dir, InitFS(pop), fs, hist, status # "none")

\* ... and for every single transition (checked by TLC also when fs' was seen before)
StepL1 == LET e == hist'[Len(hist')] IN
          /\ L1Call(Dir, fs, fs', <<e>>, status' # "none")
          /\ MustError(e.name) => fs' = fs
          /\ CleanLaws(e.name)
StepProp == [][StepL1]_vars

\* the model of Write agrees with itself: replaying hist from the start gives fs
InvReplay == LET r == WriteAll(InitFS(pop), Dir, hist) IN r.fs = fs /\ r.err = status
=============================================================================
