SPECIFICATION Spec
CONSTANTS
  K = 16
  CliBug = "none"
INVARIANTS RecExit RecExitSoft RecExtractModel RecReproduces RecModel
CHECK_DEADLOCK FALSE
