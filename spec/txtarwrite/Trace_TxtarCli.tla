---------------------------- MODULE Trace_TxtarCli ---------------------------
(***************************************************************************)
(* Validation of records of the REAL txtar-c and txtar-x commands on       *)
(* seeded random trees (deeper nesting, more files, longer bodies made of  *)
(* marker fragments, names such as "..c", "a.b", "-- x --" that the        *)
(* exhaustive enumerator does not contain).  Per run the driver records    *)
(* the tree, the flags, both exit codes, the archive text txtar-c printed  *)
(* and the files found after txtar-x (plain os walk).  TLC evaluates:      *)
(*   RecExit         both commands succeed when every file is archivable   *)
(*   RecExtractModel the files txtar-x created are exactly the entries of  *)
(*                   the printed text (Parse of Txtar.tla + Write model)   *)
(*   RecReproduces   path and content of every archived file reproduced,   *)
(*                   nothing invented (final newline / Unquote honoured)   *)
(*   RecModel        archive text identical to the SaveDir model (drift)   *)
(***************************************************************************)
EXTENDS TxtarCli, Json

CONSTANTS K

Trace == ndJsonDeserialize("trace.ndjson")

VARIABLE i
vars == <<i>>

Init == i \in 1..K
Next == i + K <= Len(Trace) /\ i' = i + K
Spec == Init /\ [][Next]_vars

Range(s) == {s[k] : k \in 1..Len(s)}
TreeOf(r) == [k \in 1..Len(r.files) |-> [path |-> SplitSlash(r.files[k].name), data |-> r.files[k].data]]
OutOf(r)  == {[name |-> x.name, data |-> x.data] : x \in Range(r.out)}
AllEligible(r) == \A k \in 1..Len(r.files) : Eligible(TreeOf(r)[k], r.all, r.quote)
Succeeded(r) == r.cexit = 0 /\ r.xexit = 0

\* always TRUE: the BAD lines on stdout are the verdict (see BUILDING.md)
Bad(name) == PrintT(<<"BAD", name, i>>)
Live == i <= Len(Trace)

RecExit == ((Live /\ AllEligible(Trace[i])) => Succeeded(Trace[i])) \/ Bad("RecExit")
RecExitSoft == (Live => Succeeded(Trace[i])) \/ Bad("RecExitSoft")
RecExtractModel ==
  ((Live /\ Succeeded(Trace[i])) =>
      LET r == Extract(Trace[i].archive) IN r.err = "none" /\ FilesOf(r.fs) = OutOf(Trace[i]))
  \/ Bad("RecExtractModel")
RecReproduces ==
  ((Live /\ Succeeded(Trace[i])) =>
      Reproduces(TreeOf(Trace[i]), Trace[i].all, Trace[i].quote,
                 UnquoteNames(Parse(Trace[i].archive).comment), OutOf(Trace[i])))
  \/ Bad("RecReproduces")
RecModel ==
  ((Live /\ Succeeded(Trace[i])) =>
      Trace[i].archive = Format(SaveDir(TreeOf(Trace[i]), Trace[i].all, Trace[i].quote)))
  \/ Bad("RecModel")
=============================================================================
