SPECIFICATION Spec
CONSTANTS
  K = 16
  Bug = "none"
INVARIANTS RecNoPanic RecContained RecNoOverwrite RecMustError RecHolds RecModel
CHECK_DEADLOCK FALSE
