--------------------------- MODULE Trace_TxtarWrite --------------------------
(***************************************************************************)
(* Validation of records produced by the REAL txtar.Write (binding B1):    *)
(* the driver runs Write on seeded random archives (names from a richer    *)
(* fragment set than the exhaustive generator: "..a", "...", "a\b", long   *)
(* chains, 1..3 entries) in the sandboxes of TxtarWriteEnv and records,    *)
(* per call, the population, the entries, whether an error came back and   *)
(* the observed difference of the sandbox (plain os snapshot).  TLC        *)
(* rebuilds the before/after file systems and evaluates the statement's    *)
(* laws (L1Call) on them; RecModel additionally compares with the model    *)
(* of Write (reported as drift, never as a verdict).                       *)
(* Records are independent: the index runs in K lanes.                     *)
(***************************************************************************)
EXTENDS TxtarWriteEnv, Json

CONSTANTS K

Trace == ndJsonDeserialize("trace.ndjson")

VARIABLE i
vars == <<i>>

Init == i \in 1..K
Next == i + K <= Len(Trace) /\ i' = i + K
Spec == Init /\ [][Next]_vars

Range(s) == {s[k] : k \in 1..Len(s)}

Before(r) == InitFS(r.pop)
\* the file system after the call, from the recorded difference
AfterFS(r) ==
  LET f   == Before(r)
      new == {n.path : n \in Range(r.after)}
      rem == Range(r.removed)
      nodeAt(p) == CHOOSE n \in Range(r.after) : n.path = p IN
  [p \in (DOMAIN f \ rem) \cup new |->
      IF p \in new THEN [kind |-> nodeAt(p).kind, data |-> nodeAt(p).data] ELSE f[p]]

\* always TRUE: the BAD lines on stdout are the verdict (see BUILDING.md)
Bad(name) == PrintT(<<"BAD", name, i>>)
Live == i <= Len(Trace)

RecNoPanic     == (Live => ~Trace[i].panic) \/ Bad("RecNoPanic")
RecContained   == (Live => Contained(Dir, Before(Trace[i]), AfterFS(Trace[i]))) \/ Bad("RecContained")
RecNoOverwrite == (Live => NoOverwrite(Before(Trace[i]), AfterFS(Trace[i]))) \/ Bad("RecNoOverwrite")
RecMustError   == (Live => ((\E k \in 1..Len(Trace[i].entries) : MustError(Trace[i].entries[k].name)) => Trace[i].failed))
                  \/ Bad("RecMustError")
RecHolds       == ((Live /\ ~Trace[i].failed /\ ~Trace[i].panic) =>
                      \A k \in 1..Len(Trace[i].entries) : Holds(Dir, AfterFS(Trace[i]), Trace[i].entries[k]))
                  \/ Bad("RecHolds")
\* conformance with the model of Write: drift only
RecModel       == ((Live /\ ~Trace[i].panic) =>
                      LET m == WriteAll(Before(Trace[i]), Dir, Trace[i].entries) IN
                      m.fs = AfterFS(Trace[i]) /\ (m.err # "none") = Trace[i].failed)
                  \/ Bad("RecModel")
=============================================================================
