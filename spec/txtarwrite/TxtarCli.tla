------------------------------ MODULE TxtarCli ------------------------------
(***************************************************************************)
(* Reference semantics of the txtar-c / txtar-x round trip (property C15,  *)
(* second half).  Needs ../txtar/Txtar.tla (the format: Parse, Format,     *)
(* FixNL, NeedsQuote, Quote, Unquote; checks/c15.py copies it next to this *)
(* module for every TLC run) and TxtarWrite.tla instantiated on bytes.     *)
(*                                                                         *)
(* A tree is a sequence, in directory-walk order, of                       *)
(*    [path |-> sequence of name segments (byte strings), data |-> bytes]. *)
(*   SaveDir  = what txtar-c puts into the archive (dot files only with    *)
(*              -a, final newline added, files with marker lines quoted    *)
(*              and listed in an "unquote NAME" comment line with -quote,  *)
(*              left out without it);                                      *)
(*   Extract  = txtar-x: Parse of the archive text, then Write of every    *)
(*              entry (TxtarWrite) into an empty directory.                *)
(* The round-trip laws are stated on those two, and TLC checks them for    *)
(* every tree it enumerates (MC_TxtarCli) and on records of the real       *)
(* commands (Trace_TxtarCli).                                              *)
(***************************************************************************)
EXTENDS Txtar, TLC

CONSTANT CliBug     \* "none" or a seeded fault of the SaveDir model

W == INSTANCE TxtarWrite WITH SegEmpty <- <<>>, SegDot <- <<46>>, SegDotDot <- <<46, 46>>,
                              NoData <- <<>>, Bug <- "none"

SLASH == 47
DOT   == 46

\* name <-> segments
RECURSIVE SplitFrom(_, _, _)
SplitFrom(s, i, start) ==
  IF i > Len(s) THEN <<SubSeq(s, start, Len(s))>>
  ELSE IF s[i] = SLASH THEN <<SubSeq(s, start, i-1)>> \o SplitFrom(s, i+1, i+1)
  ELSE SplitFrom(s, i+1, start)
SplitSlash(s) == SplitFrom(s, 1, 1)

RECURSIVE JoinFrom(_, _)
JoinFrom(p, i) == IF i > Len(p) THEN <<>> ELSE (IF i > 1 THEN <<SLASH>> ELSE <<>>) \o p[i] \o JoinFrom(p, i+1)
JoinSlash(p) == JoinFrom(p, 1)

\* a file or one of its directories has a name that starts with "."
DotNamed(p) == \E k \in 1..Len(p) : p[k] # <<>> /\ p[k][1] = DOT

UnquoteWord == <<117, 110, 113, 117, 111, 116, 101, 32>>     \* "unquote "

\* ---- txtar-c ----
Body(f)       == FixNL(f.data)                       \* the final newline txtar requires
Quoted(f)     == NeedsQuote(Body(f))
Stored(f)     == IF Quoted(f) THEN Quote(Body(f)) ELSE Body(f)
Eligible(f, all, quote) == (all \/ ~DotNamed(f.path)) /\ (quote \/ ~Quoted(f))

RECURSIVE SaveFold(_, _, _, _, _)
SaveFold(tree, i, all, quote, a) ==
  IF i > Len(tree) THEN a
  ELSE LET f == tree[i]
           nm == JoinSlash(f.path) IN
    IF DotNamed(f.path) /\ ~all THEN SaveFold(tree, i+1, all, quote, a)
    ELSE IF Quoted(f) /\ ~quote THEN
         (IF CliBug = "IncludeMarker"
          THEN SaveFold(tree, i+1, all, quote, [a EXCEPT !.files = Append(@, File(nm, Body(f)))])
          ELSE SaveFold(tree, i+1, all, quote, a))
    ELSE IF Quoted(f) THEN
         SaveFold(tree, i+1, all, quote,
                  [comment |-> IF CliBug = "NoUnquoteLine" THEN a.comment ELSE a.comment \o UnquoteWord \o nm \o <<LF>>,
                   files   |-> Append(a.files, File(nm, Quote(Body(f))))])
    ELSE SaveFold(tree, i+1, all, quote,
                  [a EXCEPT !.files = Append(@, File(nm, Body(f)))])
SaveDir(tree, all, quote) == SaveFold(tree, 1, all, quote, Arch(<<>>, <<>>))

\* names listed in "unquote NAME" lines of an archive comment
UnquoteNames(comment) ==
  {SubSeq(StripEOL(l), 9, Len(StripEOL(l))) :
      l \in {Lines(comment)[k] : k \in {j \in 1..Len(Lines(comment)) :
                Len(Lines(comment)[j]) > 8 /\ SubSeq(Lines(comment)[j], 1, 8) = UnquoteWord}}}

\* ---- txtar-x ----
EmptyDir == (<<>> :> W!DirNode)
Entries(a) == [k \in 1..Len(a.files) |-> [name |-> SplitSlash(a.files[k].name), data |-> a.files[k].data]]
Extract(text) == W!WriteAll(EmptyDir, <<>>, Entries(Parse(text)))

FilesOf(fs) == {[name |-> JoinSlash(p), data |-> fs[p].data] : p \in {q \in DOMAIN fs : fs[q].kind = "file"}}
DirsOf(fs)  == {p \in DOMAIN fs : fs[p].kind = "dir"}

\* ---- the round-trip laws ----
\* what extraction must contain for the files that are archived
ExpectFiles(tree, all, quote) ==
  {[name |-> JoinSlash(tree[k].path), data |-> Stored(tree[k])] :
      k \in {j \in 1..Len(tree) : Eligible(tree[j], all, quote)}}

\* content of an extracted file with "quoted files restored by Unquote"
Restored(unq, x) == IF x.name \in unq THEN Unquote(x.data) ELSE x.data

\* out = set of [name, data] found after extraction of an archive with comment lines unq
Reproduces(tree, all, quote, unq, out) ==
  /\ \A k \in 1..Len(tree) : Eligible(tree[k], all, quote) =>
        \E x \in out : x.name = JoinSlash(tree[k].path) /\ Restored(unq, x) = Body(tree[k])
  /\ \A x \in out : \E k \in 1..Len(tree) : x.name = JoinSlash(tree[k].path) /\ Restored(unq, x) = Body(tree[k])

RoundTripLaws(tree, all, quote) ==
  LET a    == SaveDir(tree, all, quote)
      text == Format(a)
      r    == Extract(text) IN
  /\ Parse(text) = a                                             \* the archive text means what txtar-c put in
  /\ r.err = "none"                                              \* extraction succeeds
  /\ FilesOf(r.fs) = ExpectFiles(tree, all, quote)               \* exactly the archived files, path and content
  /\ Reproduces(tree, all, quote, UnquoteNames(a.comment), FilesOf(r.fs))
  /\ \A p \in DirsOf(r.fs) \ {<<>>} : \E q \in DOMAIN r.fs : r.fs[q].kind = "file" /\ W!IsPrefix(p, q)   \* only the directories of files
=============================================================================
