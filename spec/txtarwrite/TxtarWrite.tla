----------------------------- MODULE TxtarWrite -----------------------------
(***************************************************************************)
(* Reference semantics of txtar.Write (property C15, first half).          *)
(*                                                                         *)
(* An entry name is a NON-EMPTY SEQUENCE OF SEGMENTS: the name string      *)
(* split at every "/" ("" = <<E>>, "/a" = <<E, a>>, "a//b" = <<a, E, b>>,  *)
(* "a/" = <<a, E>>, where E is the empty segment).  A path in the file     *)
(* system is a sequence of segments relative to the root of a sandbox;     *)
(* the file system is a function  path -> [kind, data].                    *)
(*                                                                         *)
(* The module has two layers:                                              *)
(*  - the statement's laws (L1): MustError / Contained / NoOverwrite /      *)
(*    Holds, written WITHOUT reference to how Write is implemented         *)
(*    (ClimbsOut counts directory depth over the raw segments);            *)
(*  - the model of Write itself (L2): Clean (the documented                *)
(*    path/filepath.Clean rules on segment sequences), MkdirAll, O_EXCL    *)
(*    create, with named Bug switches that re-introduce typical faults.    *)
(* TLC checks that L2 satisfies L1 (MC_TxtarWrite) and evaluates L1 on     *)
(* records of the real code (Trace_TxtarWrite).                            *)
(*                                                                         *)
(* Segments and data are parameters so that the same module serves the     *)
(* string-typed generator (segments "a", "..") and the byte-typed CLI      *)
(* model (segments <<97>>, <<46, 46>>, see TxtarCli.tla).                   *)
(***************************************************************************)
EXTENDS Integers, Sequences, FiniteSets, TLC

CONSTANTS SegEmpty,    \* the empty segment
          SegDot,      \* "."
          SegDotDot,   \* ".."
          NoData,      \* data field of a directory node (same type as file data)
          Bug          \* "none" or the name of a seeded fault of the model

----------------------------------------------------------------------------
\* L1: what the statement says about names

Normal(s) == s # SegEmpty /\ s # SegDot /\ s # SegDotDot

\* the name string starts with "/"
Rooted(n) == Len(n) >= 2 /\ n[1] = SegEmpty

\* directory depth relative to the start after the first k segments
RECURSIVE Depth(_, _)
Depth(n, k) == IF k = 0 THEN 0
               ELSE Depth(n, k-1) + (IF Normal(n[k]) THEN 1 ELSE IF n[k] = SegDotDot THEN -1 ELSE 0)

\* "climbs out through '..'": somewhere along the name we are above the start
ClimbsOut(n) == ~Rooted(n) /\ \E k \in 1..Len(n) : Depth(n, k) < 0

\* entries for which the statement demands an error
MustError(n) == Rooted(n) \/ ClimbsOut(n)

----------------------------------------------------------------------------
\* path/filepath.Clean on segment sequences (Unix rules): drop empty and "."
\* elements, cancel "x/..", drop ".." at the root of a rooted path, keep leading
\* ".." of a relative path.  The result is the element list; "." is <<>>.
RECURSIVE CleanFold(_, _, _, _)
CleanFold(n, i, rooted, st) ==
  IF i > Len(n) THEN st
  ELSE LET s == n[i] IN
    IF s = SegEmpty \/ s = SegDot THEN CleanFold(n, i+1, rooted, st)
    ELSE IF s = SegDotDot THEN
       IF st # <<>> /\ st[Len(st)] # SegDotDot THEN CleanFold(n, i+1, rooted, SubSeq(st, 1, Len(st)-1))
       ELSE IF rooted THEN CleanFold(n, i+1, rooted, st)
       ELSE CleanFold(n, i+1, rooted, Append(st, SegDotDot))
    ELSE CleanFold(n, i+1, rooted, Append(st, s))
CleanElems(n) == CleanFold(n, 1, Rooted(n), <<>>)

StartsDotDot(c) == c # <<>> /\ c[1] = SegDotDot

\* laws of Clean that TLC checks for every enumerated name
CleanLaws(n) ==
  LET c == CleanElems(n) IN
  /\ \A k \in 1..Len(c) : c[k] # SegEmpty /\ c[k] # SegDot
  /\ \A k \in 1..Len(c) : c[k] = SegDotDot => (~Rooted(n) /\ \A j \in 1..k : c[j] = SegDotDot)
  /\ CleanElems(c) = c                                   \* idempotent (on the relative element list)
  /\ (~Rooted(n)) => (ClimbsOut(n) <=> StartsDotDot(c))   \* the two definitions of "climbs out" agree

\* filepath.Join(dir, cleaned): purely lexical, ".." removes the last element
RECURSIVE JoinClean(_, _)
JoinClean(d, c) ==
  IF c = <<>> THEN d
  ELSE IF Head(c) = SegDotDot THEN JoinClean(IF d = <<>> THEN d ELSE SubSeq(d, 1, Len(d)-1), Tail(c))
  ELSE JoinClean(Append(d, Head(c)), Tail(c))

----------------------------------------------------------------------------
\* file system

DirNode     == [kind |-> "dir",  data |-> NoData]
FileNode(d) == [kind |-> "file", data |-> d]
\* a symbolic link (data = its target, relative to the directory it is in).  Write never follows one: O_EXCL refuses
\* an existing directory entry whatever it is, also a link whose target does not exist
LinkNode(t) == [kind |-> "other", data |-> t]

IsPrefix(p, q) == Len(p) <= Len(q) /\ SubSeq(q, 1, Len(p)) = p
Parent(p) == SubSeq(p, 1, Len(p)-1)

\* os.MkdirAll(p): create the missing prefixes, fail at a prefix that is a file
RECURSIVE MkdirAll(_, _, _)
MkdirAll(fs, p, k) ==
  IF k > Len(p) THEN [fs |-> fs, err |-> "none"]
  ELSE LET q == SubSeq(p, 1, k) IN
    IF q \in DOMAIN fs
    THEN (IF fs[q].kind = "dir" THEN MkdirAll(fs, p, k+1) ELSE [fs |-> fs, err |-> "notdir"])
    ELSE MkdirAll((q :> DirNode) @@ fs, p, k+1)

\* the test Write applies to a name before touching the file system
Rejects(n) ==
  LET c == CleanElems(n) IN
  CASE Bug = "PrefixOnly" -> Rooted(n) \/ (Len(c) >= 2 /\ c[1] = SegDotDot)  \* tests for the prefix "../" only: ".." itself passes
    [] Bug = "RawPrefix"  -> Rooted(n) \/ n[1] = SegDotDot                    \* tests the name before cleaning it
    [] Bug = "AbsAsRel"   -> StartsDotDot(c)                                  \* forgets absolute names
    [] OTHER              -> Rooted(n) \/ StartsDotDot(c)

\* one entry of the archive: [name |-> segments, data |-> d]
WriteEntry(fs, dir, e) ==
  IF Rejects(e.name) THEN [fs |-> fs, err |-> "outside"]
  ELSE LET tgt == JoinClean(dir, CleanElems(e.name))
           m   == IF tgt = <<>> THEN [fs |-> fs, err |-> "none"] ELSE MkdirAll(fs, Parent(tgt), 1) IN
       IF m.err # "none" THEN m
       ELSE IF tgt \in DOMAIN m.fs
            THEN (IF Bug = "Trunc" /\ m.fs[tgt].kind = "file"
                  THEN [fs |-> [m.fs EXCEPT ![tgt] = FileNode(e.data)], err |-> "none"]   \* O_TRUNC instead of O_EXCL
                  ELSE [fs |-> m.fs, err |-> "exists"])
            ELSE [fs |-> (tgt :> FileNode(e.data)) @@ m.fs, err |-> "none"]

\* Write: entries in order, stop at the first error
RECURSIVE WriteFrom(_, _, _, _)
WriteFrom(fs, dir, es, i) ==
  IF i > Len(es) THEN [fs |-> fs, err |-> "none"]
  ELSE LET r == WriteEntry(fs, dir, es[i]) IN
       IF r.err # "none" THEN r ELSE WriteFrom(r.fs, dir, es, i+1)
WriteAll(fs, dir, es) == WriteFrom(fs, dir, es, 1)

----------------------------------------------------------------------------
\* L1: the statement's laws on a before/after pair of file systems f, g

Changed(f, g) == {p \in DOMAIN f \cup DOMAIN g : p \notin DOMAIN f \/ p \notin DOMAIN g \/ f[p] # g[p]}

\* a change is inside dir, or it is the creation of dir's own missing ancestors as directories
AllowedChange(dir, g, p) == IsPrefix(dir, p) \/ (IsPrefix(p, dir) /\ p \in DOMAIN g /\ g[p].kind = "dir")
Contained(dir, f, g) == \A p \in Changed(f, g) : AllowedChange(dir, g, p)

\* no existing file is overwritten (or removed, or replaced)
NoOverwrite(f, g) == \A p \in DOMAIN f : f[p].kind = "file" => (p \in DOMAIN g /\ g[p] = f[p])

\* the file of entry e holds exactly e's data
Target(dir, e) == dir \o CleanElems(e.name)
Holds(dir, g, e) == Target(dir, e) \in DOMAIN g /\ g[Target(dir, e)] = FileNode(e.data)

\* all laws for one call  Write(es, dir): f -> g, failed = an error was returned
L1Call(dir, f, g, es, failed) ==
  /\ Contained(dir, f, g)
  /\ NoOverwrite(f, g)
  /\ (\E k \in 1..Len(es) : MustError(es[k].name)) => failed
  /\ (~failed) => \A k \in 1..Len(es) : Holds(dir, g, es[k])
=============================================================================
