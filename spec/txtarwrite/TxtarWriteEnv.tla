---------------------------- MODULE TxtarWriteEnv ---------------------------
(***************************************************************************)
(* The sandbox in which txtar.Write is exercised (string-typed instance of *)
(* TxtarWrite): a snapshot root that contains the target directory four    *)
(* levels down (so that a name of up to four ".." stays observable), decoy *)
(* files and directories named like the entries ("a", "b/a") at every      *)
(* level above the target, and four populations of the target itself (one with symbolic links).     *)
(* The Go driver materialises exactly these populations (they are emitted  *)
(* by TLC, not re-typed in Go).                                            *)
(***************************************************************************)
EXTENDS Integers, Sequences, FiniteSets, TLC

CONSTANT Bug

INSTANCE TxtarWrite WITH SegEmpty <- "", SegDot <- ".", SegDotDot <- "..", NoData <- "", Bug <- Bug

Dir == <<"w", "v", "u", "t">>           \* the directory handed to Write
Old == "o"                               \* data token of every pre-existing file

PopNames == {"empty", "populated", "fresh", "linked"}

Prefixes(p, k) == {SubSeq(p, 1, j) : j \in 0..k}
DecoyDirs(levels)  == {Append(l, "b") : l \in levels}
DecoyFiles(levels) == {Append(l, "a") : l \in levels} \cup {l \o <<"b", "a">> : l \in levels}

FsOf(dirs, files) == [p \in dirs \cup files |-> IF p \in dirs THEN DirNode ELSE FileNode(Old)]

\* "empty":     dir exists and is empty
\* "populated": dir holds a (file), b/ (directory), b/a (file)
\* "fresh":     neither dir nor its parent exist yet (Write creates them)
\* "linked":    populated, with symbolic links leading out of dir at a and b/a
InitFS(pop) ==
  CASE pop = "empty" ->
         FsOf(Prefixes(Dir, 4) \cup DecoyDirs(Prefixes(Dir, 3)), DecoyFiles(Prefixes(Dir, 3)))
    [] pop = "populated" ->
         FsOf(Prefixes(Dir, 4) \cup DecoyDirs(Prefixes(Dir, 4)), DecoyFiles(Prefixes(Dir, 4)))
    [] pop = "linked" ->      \* as "populated", but a and b/a are symbolic links that lead out of dir: a -> ../la does not
                              \* exist (dangling), b/a -> ../../a is the decoy file one level above dir
         LET base == FsOf(Prefixes(Dir, 4) \cup DecoyDirs(Prefixes(Dir, 4)), DecoyFiles(Prefixes(Dir, 4))) IN
         [p \in DOMAIN base |-> IF p = Append(Dir, "a") THEN LinkNode("../la")
                                ELSE IF p = Dir \o <<"b", "a">> THEN LinkNode("../../a") ELSE base[p]]
    [] pop = "fresh" ->
         FsOf(Prefixes(Dir, 2) \cup DecoyDirs(Prefixes(Dir, 2)), DecoyFiles(Prefixes(Dir, 2)))

\* listing of a file system / of the difference between two, for the driver
Listing(fs)  == {[path |-> p, kind |-> fs[p].kind, data |-> fs[p].data] : p \in DOMAIN fs}
After(f, g)  == {[path |-> p, kind |-> g[p].kind, data |-> g[p].data] : p \in Changed(f, g) \cap DOMAIN g}
Removed(f, g) == Changed(f, g) \ DOMAIN g
=============================================================================
