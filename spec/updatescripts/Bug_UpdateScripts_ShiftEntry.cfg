SPECIFICATION Spec
CONSTANTS
  Bug = "ShiftEntry"
  MaxSlots = 2
  KindMode = "core"
  Cs = {1, 2, 3, 4, 5}
  ArchG = {1, 2, 6}
  ByOpts = {TRUE, FALSE}
  SubOpts = {"plain", "sub", "stop", "dup"}
  Emit = FALSE
INVARIANTS InvCanonical InvVerdict InvNoRewrite InvNeverModify InvPreserve InvHoldsActual InvUnquotable InvSecondRun InvShape
CHECK_DEADLOCK FALSE
