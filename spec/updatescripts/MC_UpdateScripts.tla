-------------------------- MODULE MC_UpdateScripts --------------------------
(***************************************************************************)
(* Bounded enumerator of scripts for C16.  A state is a script: the choice *)
(* `by` (untouched entries around the goldens or not) and a sequence of at *)
(* most MaxSlots golden slots; Next appends one slot.  With every state    *)
(* goes `o`, the outcome the machine of UpdateScripts.tla computes for the *)
(* script (first run with UpdateScripts, second run without).  TLC checks  *)
(* the laws of the statement on every state and emits one case per state:  *)
(* script bytes, predicted verdicts and file bytes, and per entry what the *)
(* laws allow it to hold afterwards.  The Go driver runs the real          *)
(* testscript.RunT twice on each emitted script.                           *)
(*                                                                         *)
(* Slot domain: (src, cmp) pairs chosen by KindMode ("full" = all 12,      *)
(* "core" = 6, "mini" = 3), actual contents Content[c], c in Cs, golden =  *)
(* an entry holding Content[g], g in ArchG, or a run-time file holding the *)
(* actual content (match) or 'old\n' (mismatch).                           *)
(***************************************************************************)
EXTENDS UpdateScripts, Json, FiniteSets

CONSTANTS MaxSlots, KindMode, Cs, ArchG, ByOpts, SubOpts, Emit

FullKinds == {<<s, c>> : s \in {"out", "err", "file", "ain"}, c \in {"cmp", "neg", "env"}}
CoreKinds == {<<"out", "cmp">>, <<"err", "cmp">>, <<"file", "cmp">>, <<"ain", "cmp">>, <<"out", "neg">>, <<"file", "env">>}
MiniKinds == {<<"out", "cmp">>, <<"err", "neg">>, <<"file", "env">>}
Kinds     == CASE KindMode = "full" -> FullKinds [] KindMode = "core" -> CoreKinds [] KindMode = "mini" -> MiniKinds

GoldChoices(c) == {[gold |-> "arch", g |-> i] : i \in ArchG} \cup {[gold |-> "run", g |-> c], [gold |-> "run", g |-> OldIdx]}
SlotsFor(c) == {[src |-> kd[1], cmp |-> kd[2], c |-> c, gold |-> gc.gold, g |-> gc.g] : kd \in Kinds, gc \in GoldChoices(c)}
\* a few comparisons through a symbolic link to a (stale) golden entry: the link is not an archive file, the run fails
LinkSlots   == {[src |-> "out", cmp |-> "cmp", c |-> c, gold |-> "link", g |-> OldIdx] : c \in Cs}
SlotDomain  == {s \in (UNION {SlotsFor(c) : c \in Cs}) \cup LinkSlots : SlotOK(s)}

VARIABLES by, sub, slots, o
vars == <<by, sub, slots, o>>

----------------------------------------------------------------------------
\* the emitted case

Nontrivial(sl) == UpdatedSlots(sl) # {} \/ FailingSlots(sl) # {}

EntryCase(sl, oo, i) ==
  LET f   == oo.arch.files[i]
      ks  == {k \in UpdatedSlots(sl) : GN(oo, k) = f.name}
      c   == Content[sl[CHOOSE k \in ks : TRUE].c] IN
  [name   |-> f.name, old |-> f.data,
   update |-> ks # {},                                              \* a failing cmp names this entry: the laws allow new data
   must   |-> ks # {} /\ \A j \in (i+1)..Len(oo.arch.files) : oo.arch.files[j].name # f.name,   \* ... and, for the last entry of that name, demand it on a passing run
   want   |-> IF ks # {} /\ CanHold(c) THEN WantData(c) ELSE f.data,
   \* a content that cannot be quoted as it is: the statement cannot be met; besides leaving the entry alone an
   \* implementation might store the content with the final newline added (tolerated, not predicted)
   alt    |-> IF ks # {} /\ ~CanHold(c) THEN Quote(FixNL(c)) ELSE f.data]

Case(b, sl, oo) ==
  [by       |-> b,
   sub      |-> InSub(oo.sub),
   variant  |-> oo.sub,
   slots    |-> sl,
   script   |-> oo.script,
   comment  |-> oo.arch.comment,
   entries  |-> [i \in 1..Len(oo.arch.files) |-> EntryCase(sl, oo, i)],
   updated  |-> Cardinality(UpdatedSlots(sl)),
   failing  |-> Cardinality(FailingSlots(sl)),
   cantHold |-> \E k \in UpdatedSlots(sl) : ~CanHold(Content[sl[k].c]),
   first    |-> [verdict |-> oo.first.verdict, written |-> oo.first.written, after |-> oo.first.after,
                 unquotable |-> oo.first.unquotable],
   second   |-> [verdict |-> oo.second.verdict,
                 mustPass |-> oo.first.verdict = "pass" /\ ~ReusesUpdated(sl, oo) /\ \A k \in UpdatedSlots(sl) : Representable(Content[sl[k].c])],
   nontrivial |-> Nontrivial(sl)]

EmitCase(b, sl, oo) == IF Emit THEN PrintT(<<"EMIT", ToJson(Case(b, sl, oo))>>) ELSE TRUE
\* the content table goes out once per initial state (the helper program prints from it)
EmitTable == IF Emit THEN PrintT(<<"EMIT", ToJson([table |-> Content])>>) ELSE TRUE

Init == /\ by \in ByOpts
        /\ sub \in SubOpts
        /\ slots = <<>>
        /\ o = Outcome(by, sub, slots)
        /\ EmitTable
        /\ EmitCase(by, slots, o)
Next == /\ Len(slots) < MaxSlots
        /\ \E s \in SlotDomain :
             /\ (Len(slots) = 2 => s.src # "out")          \* (the third golden is called stdout)
             /\ slots' = Append(slots, s)
             /\ by' = by
             /\ sub' = sub
             /\ o' = Outcome(by, sub, slots')
             /\ EmitCase(by, slots', o')
Spec == Init /\ [][Next]_vars

----------------------------------------------------------------------------
\* the laws of the statement, one invariant each (so that a Bug_*.cfg names the law it breaks)
InvCanonical   == LawCanonical(o)
InvVerdict     == LawVerdict(slots, o)
InvNoRewrite   == LawNoRewrite(slots, o)
InvNeverModify == LawNeverModify(slots, o)
InvPreserve    == LawPreserve(slots, o)
InvHoldsActual == LawHoldsActual(slots, o)
InvUnquotable  == LawUnquotable(slots, o)
InvSecondRun   == LawSecondRun(slots, o)
\* the model itself: setup creates every directory an entry needs
InvShape == \A i \in 1..Len(o.arch.files) : DirOf(o.arch.files[i].name) \in InitState(o.arch.files).dirs
=============================================================================
